//! C07 — every host entry leaves the VM balanced and the context reusable.
//!
//! A case is a history of host entries on ONE context. After every entry the frame depth, the
//! value-stack depth and the host-call depth equal their values before the entry and no
//! exception is pending (hook `vm_depths`); the successful, effectful entries give the same
//! answers as on a fresh context that only ran them (model: a counter), and they keep
//! succeeding under a small stack_size_limit no matter how many entries failed before.

use crate::driver::{CaseOut, Env, Prop, Stream, Tier};
use crate::run::{Completion, RunCfg, apply_cfg, classify, install_print, panic_signature, take_last_panic, throw_class};
use crate::tape::Tape;
use boa_engine::{Context, JsResult, JsValue, Module, Source, js_string, verif::vm_depths};

pub struct C07;

const SETUP: &str = r#"
var acc = [];
function inc(x) { acc.push(x === undefined ? acc.length : x); return acc.length; }
function thrower(d) { if (d <= 0) throw new RangeError('deep'); return thrower(d - 1) + 1; }
function throwerFinally(d) { try { if (d <= 0) throw 'str'; return throwerFinally(d - 1); } finally { var z = d * 2; } }
function throwerNative(d) { return [1, 2].map(function (x) { if (d <= 0) throw new TypeError('cb'); return throwerNative(d - 1); }); }
function throwerGetter(d) { return ({ get g() { if (d <= 0) throw 1; return throwerGetter(d - 1); } }).g; }
function limitLoop(d) { if (d > 0) return limitLoop(d - 1); for (var i = 0; i < 1e7; i++) {} return i; }
function limitLoopNative(d) { return [1].map(function () { if (d > 0) return limitLoopNative(d - 1); while (true) {} }); }
function deepRec(n) { return deepRec(n + 1) + 1; }
function deepRecNative(n) { return [n].map(function (x) { return deepRecNative(x + 1); })[0]; }
function deepCatch(n) { try { return deepCatch(n + 1); } catch (e) { return n; } finally { acc.length; } }
var bound = inc.bind(null);
var boundThrower = thrower.bind(null, 3);
class K { constructor(v) { this.v = inc(v); } static boom() { throw new Error('static'); } }
class KT { constructor() { throw new Error('ctor'); } }
class KD extends K { constructor() { super(1); throw new Error('after super'); } }
class KN extends K { constructor() { this.x = 1; } }
var proxyFn = new Proxy(inc, {});
var proxyThrow = new Proxy(inc, { apply() { throw new Error('trap'); } });
var proxyRevoked = (function () { var r = Proxy.revocable(inc, {}); r.revoke(); return r.proxy; })();
function* gen() { try { var x = yield 1; inc(x); yield 2; } finally { inc('gen-finally'); } }
function* genThrows() { yield 1; throw new Error('gen'); }
function* genLoop() { yield 1; while (true) {} }
var g1 = gen(), g2 = genThrows(), g3 = genLoop();
function mkGen(k) { return k === 0 ? gen() : k === 1 ? genThrows() : genLoop(); }
async function af(k) { await null; if (k === 1) throw new Error('async'); if (k === 2) { while (true) {} } inc('af'); return k; }
function tagged(s) { return s.raw.length; }
"#;

#[derive(Clone, Debug)]
enum Step {
    /// eval a script; `ok` = expected to succeed and to call inc exactly `incs` times
    Eval { src: String, expect: Expect },
    Call { f: &'static str, args: Vec<f64>, expect: Expect },
    Construct { f: &'static str, expect: Expect },
    GenResume { g: &'static str, method: &'static str },
    RunJobs,
    Module { src: String },
}

#[derive(Clone, Copy, Debug, PartialEq)]
enum Expect {
    /// succeeds; calls inc this many times
    Ok(u32),
    Fails,
    /// may go either way (not part of the model)
    Any,
}

fn gen_step(t: &mut Tape<'_>) -> Step {
    let d = t.below(30);
    match t.below(36) {
        0 | 1 | 2 => Step::Eval { src: "inc(); acc.length".into(), expect: Expect::Ok(1) },
        3 => Step::Eval { src: format!("for (var i = 0; i < {}; i++) inc(i); acc.length", 1 + t.below(5)), expect: Expect::Ok(0) },
        4 => Step::Eval { src: "throw new Error('top')".into(), expect: Expect::Fails },
        5 => Step::Eval { src: format!("thrower({d})"), expect: Expect::Fails },
        6 => Step::Eval { src: format!("throwerFinally({d})"), expect: Expect::Fails },
        7 => Step::Eval { src: format!("throwerNative({})", d % 12), expect: Expect::Fails },
        8 => Step::Eval { src: format!("throwerGetter({})", d % 12), expect: Expect::Fails },
        9 => Step::Eval { src: format!("limitLoop({d})"), expect: Expect::Fails },
        10 => Step::Eval { src: format!("limitLoopNative({})", d % 10), expect: Expect::Fails },
        11 => Step::Eval { src: "deepRec(0)".into(), expect: Expect::Fails },
        12 => Step::Eval { src: "deepRecNative(0)".into(), expect: Expect::Fails },
        13 => Step::Eval { src: "var x = ;".into(), expect: Expect::Fails },
        14 => Step::Eval { src: "try { thrower(5) } catch (e) { inc('caught') } acc.length".into(), expect: Expect::Ok(1) },
        34 | 35 => {
            // failures of NESTED host entries (a native calling back into JS) caught by the script, many
            // times within one evaluation: whatever they leave behind accumulates until the outer entry returns
            let n = 20 + t.below(150); // below the smallest loop limit of the grid
            let f = ["throwerNative(1)", "throwerGetter(2)", "boundThrower()", "proxyThrow()", "new KT()", "[1].forEach(function () { thrower(2) })", "Reflect.apply(thrower, null, [1])", "JSON.parse('[1]', function () { throw 1 })", "'a'.replace(/a/, function () { thrower(0) })", "[2, 1].sort(function () { thrower(1) })", "KT()"][t.below(11)];
            Step::Eval { src: format!("for (var q = 0; q < {n}; q++) {{ try {{ {f} }} catch (e) {{}} }} inc(); acc.length"), expect: Expect::Ok(1) }
        }
        15 => Step::Eval { src: "JSON.parse('[1,[2]]', function (k, v) { if (k === '0' && v === 2) throw new Error('reviver'); return v; })".into(), expect: Expect::Fails },
        16 => Step::Eval { src: "try { deepRec(0) } catch (e) { inc('never') }".into(), expect: Expect::Fails },
        17 => Step::Eval { src: "deepCatch(0)".into(), expect: Expect::Fails },
        18 => Step::Call { f: ["inc", "bound", "proxyFn"][t.below(3)], args: vec![d as f64], expect: Expect::Ok(1) },
        19 => Step::Call { f: ["thrower", "throwerFinally", "throwerNative", "throwerGetter", "boundThrower", "proxyThrow", "proxyRevoked"][t.below(7)], args: vec![(d % 10) as f64], expect: Expect::Fails },
        20 => Step::Call { f: ["limitLoop", "limitLoopNative", "deepRec", "deepRecNative", "deepCatch"][t.below(5)], args: vec![(d % 8) as f64], expect: Expect::Fails },
        21 => Step::Call { f: ["K", "acc", "KT"][t.below(3)], args: vec![], expect: Expect::Fails },
        22 => Step::Construct { f: "K", expect: Expect::Ok(1) },
        23 => Step::Construct { f: ["KT", "KD", "KN", "inc2missing", "bound2missing"][t.below(3)], expect: if t.bool() { Expect::Any } else { Expect::Any } },
        24 => Step::GenResume { g: ["g1", "g2", "g3"][t.below(3)], method: ["next", "next", "throw", "return"][t.below(4)] },
        25 => Step::Eval { src: format!("g{} = mkGen({})", 1 + t.below(3), t.below(3)), expect: Expect::Ok(0) },
        26 => Step::Eval { src: format!("af({}); Promise.resolve().then(function () {{ {} }}); 0", t.below(3), ["inc('job')", "throw new Error('job')", "while (true) {}", "deepRec(0)", "thrower(4)"][t.below(5)]), expect: Expect::Any },
        27 => Step::RunJobs,
        28 => Step::Module { src: ["export let a = 1; a += 1;", "throw new Error('module');", "export default 1; await null; throw new Error('tla');", "export const x = ;", "while (true) {}"][t.below(5)].to_string() },
        29 => Step::Eval { src: "K.boom()".into(), expect: Expect::Fails },
        30 => Step::Eval { src: "eval('thrower(3)')".into(), expect: Expect::Fails },
        31 => Step::Eval { src: "Function('return thrower(2)')()".into(), expect: Expect::Fails },
        32 => Step::Eval { src: "tagged`a${thrower(1)}b`".into(), expect: Expect::Fails },
        _ => Step::Eval { src: "new KD()".into(), expect: Expect::Fails },
    }
}

fn render_step(s: &Step) -> String {
    match s {
        Step::Eval { src, expect } => format!("eval {expect:?} {src}"),
        Step::Call { f, args, expect } => format!("call {expect:?} {f} {args:?}"),
        Step::Construct { f, expect } => format!("construct {expect:?} {f}"),
        Step::GenResume { g, method } => format!("gen {g} {method}"),
        Step::RunJobs => "run_jobs".to_string(),
        Step::Module { src } => format!("module {src}"),
    }
}

fn parse_step(l: &str) -> Option<Step> {
    let (kind, rest) = l.split_once(' ').unwrap_or((l, ""));
    let expect_of = |w: &str| -> Expect {
        if let Some(n) = w.strip_prefix("Ok(").and_then(|x| x.strip_suffix(')')) { Expect::Ok(n.parse().unwrap_or(0)) } else if w == "Fails" { Expect::Fails } else { Expect::Any }
    };
    fn leak(s: &str) -> &'static str {
        Box::leak(s.to_string().into_boxed_str())
    }
    Some(match kind {
        "eval" => {
            let (e, src) = rest.split_once(' ')?;
            Step::Eval { src: src.to_string(), expect: expect_of(e) }
        }
        "call" => {
            let mut it = rest.splitn(3, ' ');
            let e = it.next()?;
            let f = it.next()?;
            let args = it.next().unwrap_or("[]");
            let args: Vec<f64> = args.trim_matches(|c| c == '[' || c == ']').split(',').filter_map(|x| x.trim().parse().ok()).collect();
            Step::Call { f: leak(f), args, expect: expect_of(e) }
        }
        "construct" => {
            let (e, f) = rest.split_once(' ')?;
            Step::Construct { f: leak(f), expect: expect_of(e) }
        }
        "gen" => {
            let (g, m) = rest.split_once(' ')?;
            Step::GenResume { g: leak(g), method: leak(m) }
        }
        "run_jobs" => Step::RunJobs,
        "module" => Step::Module { src: rest.to_string() },
        _ => return None,
    })
}

fn exec_step(ctx: &mut Context, s: &Step) -> JsResult<JsValue> {
    match s {
        Step::Eval { src, .. } => ctx.eval(Source::from_bytes(src.as_bytes())),
        Step::Call { f, args, .. } => {
            let v = ctx.global_object().get(boa_engine::JsString::from(*f), ctx)?;
            // classes/consts are not global object properties: fetch through eval
            let v = if v.is_undefined() { ctx.eval(Source::from_bytes(f.as_bytes()))? } else { v };
            let args: Vec<JsValue> = args.iter().map(|a| JsValue::from(*a)).collect();
            match v.as_object() {
                Some(o) => o.call(&JsValue::undefined(), &args, ctx),
                None => Ok(JsValue::undefined()),
            }
        }
        Step::Construct { f, .. } => {
            let v = ctx.eval(Source::from_bytes(format!("typeof {f} === 'undefined' ? undefined : {f}").as_bytes()))?;
            match v.as_object() {
                Some(o) => o.construct(&[JsValue::from(1)], None, ctx).map(JsValue::from),
                None => Ok(JsValue::undefined()),
            }
        }
        Step::GenResume { g, method } => {
            let gv = ctx.global_object().get(boa_engine::JsString::from(*g), ctx)?;
            let Some(go) = gv.as_object() else { return Ok(JsValue::undefined()) };
            let m = go.get(boa_engine::JsString::from(*method), ctx)?;
            match m.as_object() {
                Some(mo) => mo.call(&gv, &[JsValue::from(7)], ctx),
                None => Ok(JsValue::undefined()),
            }
        }
        Step::RunJobs => ctx.run_jobs().map(|()| JsValue::undefined()),
        Step::Module { src } => {
            let m = Module::parse(Source::from_bytes(src.as_bytes()), None, ctx)?;
            let p = m.load_link_evaluate(ctx);
            ctx.run_jobs()?;
            Ok(p.into())
        }
    }
}

fn acc_len(ctx: &mut Context) -> Option<f64> {
    ctx.global_object().get(js_string!("acc"), ctx).ok()?.as_object()?.get(js_string!("length"), ctx).ok()?.as_number()
}

struct Limits {
    loop_limit: u64,
    recursion: usize,
    stack: usize,
}

fn new_ctx(l: &Limits) -> Result<Context, String> {
    let mut ctx = Context::default();
    install_print(&mut ctx);
    apply_cfg(&mut ctx, &RunCfg::default());
    ctx.eval(Source::from_bytes(SETUP.as_bytes())).map_err(|e| format!("setup failed: {e}"))?;
    apply_cfg(&mut ctx, &RunCfg { loop_limit: l.loop_limit, recursion_limit: l.recursion, stack_limit: l.stack, ..RunCfg::default() });
    Ok(ctx)
}

impl C07 {
    fn check(&self, steps: &[Step], lim: &Limits, rendered: String) -> CaseOut {
        crate::run::install_panic_hook();
        let res = std::panic::catch_unwind(std::panic::AssertUnwindSafe(|| -> Result<(usize, usize, usize), (String, String)> {
            let mut ctx = new_ctx(lim).map_err(|e| ("setup".to_string(), e))?;
            let mut model_len = acc_len(&mut ctx).unwrap_or(0.0);
            let mut failed_kinds = std::collections::HashSet::new();
            let mut ok_after_fail = 0;
            let mut n_fail = 0;
            for (i, s) in steps.iter().enumerate() {
                let before = vm_depths(&ctx);
                let len_before = acc_len(&mut ctx).unwrap_or(-1.0);
                let r = exec_step(&mut ctx, s);
                let after = vm_depths(&ctx);
                let comp = match &r {
                    Ok(_) => Completion::Value(String::new()),
                    Err(e) => throw_class(e),
                };
                if comp.is_internal_failure() {
                    return Err((format!("internal failure at a host entry: {}", comp.render()), format!("step {i}: {}", render_step(s))));
                }
                if before.frames != after.frames || before.stack_len != after.stack_len || before.host_call_depth != after.host_call_depth || after.pending_exception || before.environments != after.environments {
                    let kind = match s {
                        Step::Eval { .. } => "eval",
                        Step::Call { .. } => "call",
                        Step::Construct { .. } => "construct",
                        Step::GenResume { .. } => "generator-resume",
                        Step::RunJobs => "run_jobs",
                        Step::Module { .. } => "module",
                    };
                    let ck = match &comp {
                        Completion::Value(_) => "normal",
                        Completion::Limit(_) => "limit",
                        Completion::EarlySyntaxError => "syntax",
                        _ => "throw",
                    };
                    return Err((
                        format!("unbalanced after {kind} ending in {ck}: stack {:+} frames {:+} envs {:+} host-depth {:+} pending={}", after.stack_len as i64 - before.stack_len as i64, after.frames as i64 - before.frames as i64, after.environments as i64 - before.environments as i64, after.host_call_depth as i64 - before.host_call_depth as i64, after.pending_exception),
                        format!("step {i}: {}\nbefore {before:?}\nafter  {after:?}\ncompletion {}", render_step(s), comp.render()),
                    ));
                }
                let expect = match s {
                    Step::Eval { expect, .. } | Step::Call { expect, .. } | Step::Construct { expect, .. } => *expect,
                    _ => Expect::Any,
                };
                let len_after = acc_len(&mut ctx).unwrap_or(-1.0);
                match expect {
                    Expect::Ok(n) => {
                        if r.is_err() {
                            return Err((
                                format!("an entry that must succeed failed after {n_fail} failed entries: {}", match &comp { Completion::Limit(k) => format!("limit {k}"), c => c.render().chars().take(40).collect() }),
                                format!("step {i}: {}\ncompletion {}", render_step(s), comp.render()),
                            ));
                        }
                        if n > 0 {
                            model_len += f64::from(n);
                            if len_after != model_len {
                                return Err(("effect of a successful entry differs from the model".to_string(), format!("step {i}: {} acc.length={len_after} model={model_len}", render_step(s))));
                            }
                        } else {
                            model_len = len_after;
                        }
                        if n_fail > 0 {
                            ok_after_fail += 1;
                        }
                    }
                    Expect::Fails => {
                        if r.is_ok() {
                            return Err(("an entry that must fail succeeded".to_string(), format!("step {i}: {}", render_step(s))));
                        }
                        n_fail += 1;
                        failed_kinds.insert(match &comp {
                            Completion::Limit(k) => format!("limit-{k}"),
                            Completion::EarlySyntaxError => "syntax".to_string(),
                            _ => "throw".to_string(),
                        });
                        // failing entries of the catalogue have no effect on acc, except deepCatch's none
                        model_len = len_after.max(model_len);
                        if len_after != len_before && !render_step(s).contains("deepCatch") {
                            model_len = len_after;
                        }
                    }
                    Expect::Any => {
                        if r.is_err() {
                            n_fail += 1;
                        }
                        model_len = len_after;
                    }
                }
            }
            Ok((failed_kinds.len(), ok_after_fail, n_fail))
        }));
        match res {
            Err(_) => {
                let sig = panic_signature(&take_last_panic().unwrap_or_default());
                CaseOut::fail(rendered, format!("panic {sig}"), "a host entry panicked".to_string())
            }
            Ok(Err((sig, detail))) => CaseOut::fail(rendered, sig, detail),
            Ok(Ok((kinds, ok_after_fail, n_fail))) => {
                let mut labels = vec![];
                if n_fail >= 20 {
                    labels.push("many-failures");
                }
                CaseOut::pass(rendered, kinds >= 2 && ok_after_fail >= 1).with_labels(labels)
            }
        }
    }
}

fn render(steps: &[Step], l: &Limits) -> String {
    let mut s = format!("limits loop={} recursion={} stack={}\n", l.loop_limit, l.recursion, l.stack);
    for st in steps {
        s.push_str(&render_step(st));
        s.push('\n');
    }
    s
}

impl Prop for C07 {
    fn id(&self) -> &'static str {
        "C07"
    }
    fn streams(&self, tier: Tier) -> Vec<Stream> {
        let m = if tier == Tier::Quick { 1 } else { 40 };
        vec![Stream::new("history", 1500 * m, 500).batch(50), Stream::new("long", 60 * m, 4000).batch(4)]
    }
    fn rule(&self) -> String {
        "histories of 5-200 host entries (stream long: up to 2000) on ONE context over a catalogue of functions defined once: Context::eval of scripts that complete / throw at top level / throw from depth d through plain calls, finally, native callbacks, getters / hit the loop, recursion or stack limit at depth d (also inside try/catch) / are syntax errors / use eval, Function(), tagged templates, JSON.parse revivers; JsObject::call and construct of functions, bound functions, proxies (incl. throwing trap, revoked), classes (incl. constructor throwing before/after super, missing super), non-callables; generator objects resumed from the host with next/throw/return (incl. a throw that escapes and a generator that hits the loop limit); run_jobs with jobs that succeed, throw, loop or recurse; Module parse + load_link_evaluate (ok, throwing, TLA, syntax error, loop limit). Limits are drawn from a small grid so limit hits are frequent, stack_size_limit is small (1-4K values). Oracle: after EVERY entry vm_depths (frames, value stack length, environments of the current frame, host call depth, pending exception) equal their values before it; entries that must succeed do succeed regardless of earlier failures and change acc exactly as the counter model says; entries that must fail do fail. Non-trivial = failed entries of >= 2 completion kinds followed by >= 1 successful effectful entry; distinct = distinct history".into()
    }
    fn run_case(&self, _env: &mut Env, stream: &str, _index: u64, tape: &[u8]) -> CaseOut {
        let mut t = Tape::new(tape);
        let lim = Limits { loop_limit: [200u64, 1000, 5000][t.below(3)], recursion: [40usize, 100, 400][t.below(3)], stack: [1024usize, 2048, 4096][t.below(3)] };
        let n = if stream == "long" { 300 + t.below(1700) } else { 5 + t.below(195) };
        let steps: Vec<Step> = (0..n).map(|_| gen_step(&mut t)).collect();
        let r = render(&steps, &lim);
        self.check(&steps, &lim, r)
    }
    fn run_rendered(&self, _env: &mut Env, _stream: &str, rendered: &str) -> Option<CaseOut> {
        let mut lines = rendered.lines();
        let first = lines.next()?;
        let get = |k: &str| first.split_whitespace().find_map(|w| w.strip_prefix(&format!("{k}=")).and_then(|x| x.parse::<u64>().ok()));
        let lim = Limits { loop_limit: get("loop")?, recursion: get("recursion")? as usize, stack: get("stack")? as usize };
        let steps: Vec<Step> = lines.filter_map(parse_step).collect();
        Some(self.check(&steps, &lim, rendered.to_string()))
    }
    fn rendered_prefix_lines(&self, _r: &str) -> usize {
        1
    }
}
