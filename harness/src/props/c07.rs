//! C07 — not implemented yet (stub).

use crate::driver::{CaseOut, Env, Prop, Stream, Tier};

pub struct C07;

impl Prop for C07 {
    fn id(&self) -> &'static str {
        "C07"
    }
    fn streams(&self, _tier: Tier) -> Vec<Stream> {
        vec![]
    }
    fn rule(&self) -> String {
        "stub".into()
    }
    fn run_case(&self, _env: &mut Env, _stream: &str, _index: u64, _tape: &[u8]) -> CaseOut {
        CaseOut::skip(String::new(), "stub")
    }
}
