//! C16 — promise jobs run in spec FIFO order; results do not depend on scheduling:
//! trace(P via evaluate + run_jobs) = trace(P via evaluate_async_with_budget(b) + run_jobs)
//! = trace with jobs drained a few per call = V8's trace.

use crate::driver::{CaseOut, Env, Prop, Stream, Tier};
use crate::genp::asyncp::generate;
use crate::oracle::node_script;
use crate::run::{Completion, Entry, RunCfg, Trace, apply_cfg, classify, diff_traces, install_print, panic_signature, run, take_last_panic};
use crate::tape::Tape;
use boa_engine::{
    Context, JsResult, Source,
    job::{GenericJob, Job, JobExecutor, NativeAsyncJob, PromiseJob},
};
use std::cell::{Cell, RefCell};
use std::collections::VecDeque;
use std::rc::Rc;

pub struct C16;

/// FIFO executor that drains at most `per_call` promise jobs per `run_jobs` call.
#[derive(Default)]
struct PartialExecutor {
    promise_jobs: RefCell<VecDeque<PromiseJob>>,
    generic_jobs: RefCell<VecDeque<GenericJob>>,
    async_jobs: RefCell<VecDeque<NativeAsyncJob>>,
    per_call: Cell<usize>,
    ran: Cell<usize>,
}

impl JobExecutor for PartialExecutor {
    fn enqueue_job(self: Rc<Self>, job: Job, _context: &mut Context) {
        match job {
            Job::PromiseJob(p) => self.promise_jobs.borrow_mut().push_back(p),
            Job::GenericJob(g) => self.generic_jobs.borrow_mut().push_back(g),
            Job::AsyncJob(a) => self.async_jobs.borrow_mut().push_back(a),
            _ => {}
        }
    }
    fn run_jobs(self: Rc<Self>, context: &mut Context) -> JsResult<()> {
        let mut budget = self.per_call.get().max(1);
        while budget > 0 {
            let job = self.promise_jobs.borrow_mut().pop_front();
            let Some(job) = job else { break };
            job.call(context)?;
            self.ran.set(self.ran.get() + 1);
            budget -= 1;
        }
        if self.promise_jobs.borrow().is_empty() {
            let g = self.generic_jobs.borrow_mut().pop_front();
            if let Some(g) = g {
                g.call(context)?;
            }
        }
        context.clear_kept_objects();
        Ok(())
    }
}

fn run_partial(src: &str, schedule: &[usize]) -> Trace {
    crate::run::install_panic_hook();
    crate::run::PRINTS.with(|p| p.borrow_mut().clear());
    let cfg = RunCfg::default();
    let res = std::panic::catch_unwind(std::panic::AssertUnwindSafe(|| {
        let exec = Rc::new(PartialExecutor::default());
        let mut ctx = Context::builder().job_executor(exec.clone()).build().expect("context");
        install_print(&mut ctx);
        apply_cfg(&mut ctx, &cfg);
        let r = ctx.eval(Source::from_bytes(src.as_bytes()));
        let comp = classify(&r, src);
        let mut i = 0usize;
        let mut guard = 0;
        while !(exec.promise_jobs.borrow().is_empty() && exec.generic_jobs.borrow().is_empty()) {
            exec.per_call.set(schedule[i % schedule.len()].max(1));
            i += 1;
            if let Err(e) = ctx.run_jobs() {
                let c = crate::run::throw_class(&e);
                if c.is_internal_failure() || c.is_limit() {
                    return c;
                }
            }
            guard += 1;
            if guard > 100_000 {
                return Completion::Limit("harness-job-guard".into());
            }
        }
        comp
    }));
    let completion = match res {
        Ok(c) => c,
        Err(_) => Completion::Panic(panic_signature(&take_last_panic().unwrap_or_default())),
    };
    let prints = crate::run::PRINTS.with(|p| std::mem::take(&mut *p.borrow_mut()));
    Trace { prints, completion }
}

/// is the trace an interleaving of >= 2 chains (not chain after chain)?
fn interleaved(prints: &[String]) -> bool {
    let tags: Vec<&str> = prints.iter().filter_map(|l| l.split(|c| c == '.' || c == ' ').next()).filter(|t| t.starts_with('c') && t.len() <= 3).collect();
    let mut switches = 0;
    let mut seen = std::collections::HashSet::new();
    let mut returned = false;
    let mut last = "";
    for t in tags {
        if t != last {
            switches += 1;
            if seen.contains(t) {
                returned = true;
            }
            seen.insert(t);
            last = t;
        }
    }
    returned && switches >= 4
}

impl C16 {
    fn check(&self, env: &mut Env, src: &str, tape: &[u8], special: bool, labels: Vec<&'static str>) -> CaseOut {
        let base = run(src, &RunCfg::default());
        if base.completion.is_limit() {
            return CaseOut::skip(src.to_string(), "boa-limit");
        }
        // reference: V8
        let (np, nc) = match env.node().and_then(|n| node_script(n, src)) {
            Ok(x) => x,
            Err(e) => return CaseOut::skip(src.to_string(), format!("oracle-error: {e}")),
        };
        if nc == "limit:timeout" {
            // the reference ran out of its wall-clock budget (loaded machine): inconclusive, not a difference
            return CaseOut::skip(src.to_string(), "v8-timeout").with_labels(labels);
        }
        if base.prints != np || base.completion.render() != nc {
            let k = base.prints.iter().zip(np.iter()).position(|(a, b)| a != b).unwrap_or(base.prints.len().min(np.len()));
            return CaseOut::fail(src.to_string(), "order: evaluate+run_jobs differs from V8", format!("first differing line {k}: boa={:?} v8={:?}\n--- boa\n{}\n--- v8\n{}\n=> {nc}", base.prints.get(k), np.get(k), base.render(), np.join("\n"))).with_labels(labels);
        }
        let mut t = Tape::new(tape);
        let mut budgets: Vec<u32> = vec![1, 2, 3, 5, 8, 64, 1 << 20];
        if env.tier == Tier::Quick {
            budgets = vec![1, [2u32, 3, 5, 8][t.below(4)], [64u32, 1 << 20, 13, 100][t.below(4)]];
        }
        for b in budgets {
            let tr = run(src, &RunCfg { entry: Entry::AsyncBudget(b), ..RunCfg::default() });
            if let Some((sig, d)) = diff_traces("evaluate+run_jobs", &base, &format!("async-budget-{b}"), &tr) {
                return CaseOut::fail(src.to_string(), format!("budget: {sig}"), d).with_labels(labels);
            }
        }
        let mut schedules: Vec<Vec<usize>> = vec![vec![1], vec![2], vec![3]];
        schedules.push((0..8).map(|_| 1 + t.below(4)).collect());
        if env.tier == Tier::Quick {
            schedules = vec![vec![1], (0..8).map(|_| 1 + t.below(4)).collect()];
        }
        for sch in schedules {
            let tr = run_partial(src, &sch);
            if let Some((sig, d)) = diff_traces("evaluate+run_jobs", &base, &format!("partial-drain-{sch:?}"), &tr) {
                return CaseOut::fail(src.to_string(), format!("partial-drain: {sig}"), d).with_labels(labels);
            }
        }
        let nontrivial = interleaved(&base.prints) && special;
        let mut labels = labels;
        if interleaved(&base.prints) {
            labels.push("interleaved-trace");
        }
        CaseOut::pass(src.to_string(), nontrivial).with_labels(labels)
    }
}

impl Prop for C16 {
    fn id(&self) -> &'static str {
        "C16"
    }
    fn streams(&self, tier: Tier) -> Vec<Stream> {
        let m = if tier == Tier::Quick { 1 } else { 60 };
        vec![Stream::new("async", 3000 * m, 300).batch(50)]
    }
    fn rule(&self) -> String {
        "programs of 2-6 racing chains whose every callback prints: then/catch/finally chains of different lengths, executors, thenables (objects with printing then, getters for then), rejected and nested promises, Promise subclasses, async functions awaiting each of those with try/catch/finally and return vs return await, async generators with queued next/throw/return and yield*, for-await over mixed iterables, all/allSettled/race/any, deferred resolution, await loops. Reference = V8's trace. boa is run as Script evaluate + one run_jobs, as evaluate_async_with_budget(b) for b in {1,2,3,5,8,64,2^20} (quick: 3 of them) + run_jobs, and with a harness JobExecutor that is FIFO but drains only j jobs per run_jobs call (j=1,2,3 and a tape-random schedule); all traces must be equal. Non-trivial = the trace interleaves >= 2 chains (returns to a chain after leaving it, >= 4 switches) and the program has a thenable, Promise subclass, or async-generator step; distinct = distinct source".into()
    }
    fn run_case(&self, env: &mut Env, _stream: &str, _index: u64, tape: &[u8]) -> CaseOut {
        let p = generate(tape);
        self.check(env, &p.src, tape, p.has_thenable_or_asyncgen, p.labels)
    }
    fn run_rendered(&self, env: &mut Env, _stream: &str, rendered: &str) -> Option<CaseOut> {
        Some(self.check(env, rendered, rendered.as_bytes(), true, vec![]))
    }
}
