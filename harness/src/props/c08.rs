//! C08 — runtime limits stop runaway scripts and cannot be intercepted.

use crate::driver::{CaseOut, Env, Prop, Stream, Tier};
use crate::genp::limits::{FRAMELESS, LOOPS, ROUTES, WRAPPERS, generate, generate_frameless};
use crate::run::{Completion, RunCfg, apply_cfg, classify, install_print, panic_signature, take_last_panic, throw_class};
use crate::tape::Tape;
use boa_engine::{Context, Source, js_string};

pub struct C08;

struct Outcome {
    eval: Completion,
    jobs: Option<Completion>,
    prints: Vec<String>,
    count: f64,
    depth: f64,
}

fn run_limited(src: &str, loop_limit: u64, recursion: usize, stack: usize) -> Outcome {
    crate::run::install_panic_hook();
    crate::run::PRINTS.with(|p| p.borrow_mut().clear());
    let cfg = RunCfg { loop_limit, recursion_limit: recursion, stack_limit: stack, ..RunCfg::default() };
    let res = std::panic::catch_unwind(std::panic::AssertUnwindSafe(|| {
        let mut ctx = Context::default();
        install_print(&mut ctx);
        apply_cfg(&mut ctx, &cfg);
        let r = ctx.eval(Source::from_bytes(src.as_bytes()));
        let eval = classify(&r, src);
        let jobs = match ctx.run_jobs() {
            Ok(()) => None,
            Err(e) => Some(throw_class(&e)),
        };
        // read the counters with the limits lifted
        apply_cfg(&mut ctx, &RunCfg::default());
        let g = ctx.global_object();
        let count = g.get(js_string!("count"), &mut ctx).ok().and_then(|v| v.as_number()).unwrap_or(-1.0);
        let depth = g.get(js_string!("depth"), &mut ctx).ok().and_then(|v| v.as_number()).unwrap_or(-1.0);
        (eval, jobs, count, depth)
    }));
    let prints = crate::run::PRINTS.with(|p| std::mem::take(&mut *p.borrow_mut()));
    match res {
        Ok((eval, jobs, count, depth)) => Outcome { eval, jobs, prints, count, depth },
        Err(_) => Outcome { eval: Completion::Panic(panic_signature(&take_last_panic().unwrap_or_default())), jobs: None, prints, count: -1.0, depth: -1.0 },
    }
}

impl C08 {
    fn check(&self, src: &str, kind: &str, need: u64, is_async: bool, desc: &str, tape: &[u8]) -> CaseOut {
        let mut t = Tape::new(tape);
        let rendered = format!("//C08 kind={kind} need={need} async={is_async} {desc}\n{src}");
        // reference: generous limits (must complete, and this also validates the template)
        let free = run_limited(src, u64::MAX, 4096, 1 << 20);
        if free.eval.is_limit() || free.jobs.as_ref().is_some_and(Completion::is_limit) {
            return CaseOut::skip(rendered, "template hits a limit even with generous limits");
        }
        if free.eval.is_internal_failure() {
            return CaseOut::fail(rendered, format!("internal failure {}", free.eval.render()), free.prints.join("\n"));
        }
        let expected_after = free.prints.iter().any(|l| l == "after-sync");
        let mut labels: Vec<&'static str> = vec![];
        if kind == "loop" {
            // the set-up loop in the script frame needs `need` iterations as well
            // (a) just above the need: unaffected
            let above = need + 3 + t.below(40) as u64;
            let a = run_limited(src, above, 4096, 1 << 20);
            if a.eval != free.eval || a.jobs != free.jobs || a.prints != free.prints || a.count != free.count {
                return CaseOut::fail(rendered, "limit above the need changed the behaviour", format!("loop limit {above}, need {need}\n--- unlimited: {} {:?} count={}\n{}\n--- limited: {} {:?} count={}\n{}", free.eval.render(), free.jobs, free.count, free.prints.join("\n"), a.eval.render(), a.jobs, a.count, a.prints.join("\n")));
            }
            if need >= 5 {
                // (b) below the need: must be stopped, uninterceptably
                let below = t.below((need - 3) as usize) as u64;
                let b = run_limited(src, below, 4096, 1 << 20);
                labels.push("limit-exceeded");
                return self.judge_stopped(rendered, &b, "loop", below, is_async, expected_after, labels);
            }
            return CaseOut::pass(rendered, false).with_labels(vec!["under-limit-only"]);
        }
        // recursion: each level = 1 JS frame + native re-entry; generous: passes (checked above)
        let r_small = 1 + t.below((need.max(3) - 2) as usize);
        let stack_small = t.chance(40);
        let b = if stack_small { run_limited(src, u64::MAX, 4096, 60 + t.below(200)) } else { run_limited(src, u64::MAX, r_small, 1 << 20) };
        if need >= 6 || stack_small {
            labels.push(if stack_small { "stack-limit" } else { "recursion-limit" });
            if stack_small && !b.eval.is_limit() && !b.jobs.as_ref().is_some_and(Completion::is_limit) {
                // a small stack that still suffices is not an error
                return CaseOut::pass(rendered, false).with_labels(vec!["stack-limit-not-reached"]);
            }
            return self.judge_stopped(rendered, &b, "recursion", r_small as u64, is_async, expected_after, labels);
        }
        CaseOut::pass(rendered, false).with_labels(vec!["under-limit-only"])
    }

    #[allow(clippy::too_many_arguments)]
    fn judge_stopped(&self, rendered: String, o: &Outcome, kind: &str, limit: u64, is_async: bool, _expected_after: bool, labels: Vec<&'static str>) -> CaseOut {
        let dump = format!("limit {kind}={limit}\neval: {}\nrun_jobs: {:?}\ncount={} depth={}\nprints:\n{}", o.eval.render(), o.jobs.as_ref().map(Completion::render), o.count, o.depth, o.prints.join("\n"));
        if o.eval.is_internal_failure() {
            return CaseOut::fail(rendered, format!("internal failure {}", o.eval.render()), dump);
        }
        let hit_eval = o.eval.is_limit();
        let hit_jobs = o.jobs.as_ref().is_some_and(Completion::is_limit);
        if !hit_eval && !hit_jobs {
            return CaseOut::fail(rendered, format!("{kind} limit not reported to the host"), dump);
        }
        if is_async && hit_eval && kind == "loop" && false {
            return CaseOut::fail(rendered, "limit hit in the wrong entry", dump);
        }
        // no catch / finally / later statement of the offending activation chain may run
        for l in &o.prints {
            if l == "caught" || l == "finally" || l == "cb end" || l == "rec end" {
                return CaseOut::fail(rendered, format!("limit error intercepted or outlived: marker '{l}' printed"), dump);
            }
            if l == "after-sync" && hit_eval {
                return CaseOut::fail(rendered, "statement after the limit point ran", dump);
            }
        }
        // bounded work
        if kind == "loop" && o.count > (limit + 2) as f64 {
            return CaseOut::fail(rendered, "loop body ran more often than the limit allows", dump);
        }
        if kind == "recursion" && labels.contains(&"recursion-limit") && o.depth > (limit + 1) as f64 {
            return CaseOut::fail(rendered, "recursion went deeper than the limit allows", dump);
        }
        let nontrivial = rendered.contains("try {") || !rendered.contains(" route=call ");
        CaseOut::pass(rendered, nontrivial).with_labels(labels)
    }
}

impl Prop for C08 {
    fn id(&self) -> &'static str {
        "C08"
    }
    fn streams(&self, tier: Tier) -> Vec<Stream> {
        let m = if tier == Tier::Quick { 1 } else { 30 };
        vec![Stream::new("limits", 12_000 * m, 60).batch(500), Stream::new("product", (ROUTES.len() * LOOPS.len()) as u64, 16).batch(200).exhaustive(), Stream::new("frameless", 1500 * m, 24).batch(100)]
    }
    fn rule(&self) -> String {
        format!("programs = {{{} re-entry routes (call, new, accessors, every Proxy trap used, iterator protocol, toPrimitive/valueOf/toString, Array/TypedArray/Map/Set callbacks, sort comparator, replace callbacks, JSON toJSON/replacer/reviver, Reflect.apply/construct, call/apply/bind, promise executor, thenable getter, tagged template, direct/indirect eval, Function(), class static block/field initialisers, computed key, default parameter, generators, Symbol.hasInstance/species, getters reached through Object.assign/spread/destructuring/with, super call, then/finally/catch callbacks, async continuation, thenable job, async generator, for-await)}} x {{{} loop forms or recursion through the route}} x {{{} wrappers inside the activation}} x {{{} wrappers around the entry}}; limits drawn around the program's need. Checks: (1) with the loop limit above the need the trace, counters and completion equal the unlimited run; (2) with the limit below the need the host receives RuntimeLimitError from the evaluation or from run_jobs, no 'caught'/'finally'/'cb end'/'rec end' marker is printed, no statement after the limit point runs, the body counter <= limit+2 and the recursion depth <= limit+1. stream product enumerates every route x loop form once; stream frameless = {} recursion forms that nest activations without any user-function call (a string that evals itself directly/indirectly, chains of generators delegating through yield*/for-of/spread/eval built iteratively and resumed once) under the same wrappers and the same checks. Non-trivial = limit exceeded inside >= 1 try wrapper or through a non-plain-call route; distinct = distinct program + limits", ROUTES.len(), LOOPS.len(), WRAPPERS.len(), WRAPPERS.len(), FRAMELESS.len())
    }
    fn run_case(&self, _env: &mut Env, stream: &str, index: u64, tape: &[u8]) -> CaseOut {
        if stream == "product" {
            // deterministic enumeration of route x loop (wrappers from the tape)
            let r = (index as usize) % ROUTES.len();
            let l = (index as usize) / ROUTES.len() % LOOPS.len();
            let mut bytes = vec![255u8, ((r * 256 + 128) / ROUTES.len()) as u8, tape.first().copied().unwrap_or(0), tape.get(1).copied().unwrap_or(0), ((l * 256 + 128) / LOOPS.len()) as u8, 200];
            bytes.extend_from_slice(tape);
            let p = generate(&bytes);
            let desc = format!("route={} form={} wrappers={}/{}", p.route, p.form, p.wrappers.0, p.wrappers.1);
            return self.check(&p.src, p.kind, p.need, p.is_async, &desc, tape);
        }
        let p = if stream == "frameless" { generate_frameless(tape) } else { generate(tape) };
        let desc = format!("route={} form={} wrappers={}/{}", p.route, p.form, p.wrappers.0, p.wrappers.1);
        self.check(&p.src, p.kind, p.need, p.is_async, &desc, &tape[tape.len().min(8)..])
    }
    fn run_rendered(&self, _env: &mut Env, _stream: &str, rendered: &str) -> Option<CaseOut> {
        let first = rendered.lines().next()?;
        let get = |k: &str| first.split_whitespace().find_map(|w| w.strip_prefix(&format!("{k}=")).map(str::to_string));
        let kind = get("kind")?;
        let need: u64 = get("need")?.parse().ok()?;
        let is_async = get("async")? == "true";
        let src: String = rendered.lines().skip(1).collect::<Vec<_>>().join("\n") + "\n";
        let desc = first.splitn(5, ' ').nth(4).unwrap_or("").to_string();
        Some(self.check(&src, &kind, need, is_async, &desc, &[200, 100, 50, 25]))
    }
    fn rendered_prefix_lines(&self, _r: &str) -> usize {
        1
    }
}
