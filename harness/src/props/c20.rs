//! C20 — evaluation is deterministic and contexts/realms are isolated from each other:
//! trace(P | H) = trace(P | nothing) for prior histories H on the same thread, across processes,
//! and cross-realm objects keep their own realm's intrinsics (V8 as reference for realm programs).

use crate::driver::{CaseOut, Env, Prop, Stream, Tier};
use crate::genp::{order, prog, wild};
use crate::oracle::Server;
use crate::run::{Completion, RunCfg, Trace, apply_cfg, classify, diff_traces, install_print, panic_signature, run, run_with, take_last_panic};
use crate::tape::Tape;
use boa_engine::{Context, JsResult, JsValue, NativeFunction, Source, js_string, realm::Realm};
use boa_gc::{Finalize, Trace as GcTrace};
use serde_json::json;
use std::cell::RefCell;

pub struct C20;

fn cfg() -> RunCfg {
    RunCfg { loop_limit: 200_000, ..RunCfg::default() }
}

thread_local! {
    static TRACER: RefCell<Option<Server>> = const { RefCell::new(None) };
}

/// trace of `src` computed by ANOTHER process (different ASLR, hash seeds, environment size)
fn trace_other_process(src: &str, salt: u64) -> Result<String, String> {
    TRACER.with(|t| {
        let mut t = t.borrow_mut();
        if t.is_none() {
            let exe = std::env::current_exe().map_err(|e| e.to_string())?;
            // a different environment size shifts the initial stack; allocations differ too
            let s = Server::spawn(&["env".into(), format!("BV_PAD={}", "x".repeat((salt % 3000) as usize)), exe.to_string_lossy().to_string(), "tracer".into()]).map_err(|e| e.to_string())?;
            *t = Some(s);
        }
        let v = t.as_mut().unwrap().call(json!({"src": src}))?;
        Ok(v["trace"].as_str().unwrap_or("").to_string())
    })
}

/// `bv tracer`: JSON lines {id, src} -> {id, trace}
pub fn tracer_main() {
    use std::io::{BufRead, Write};
    // perturb the allocation history of this process
    let _junk: Vec<Vec<u8>> = (0..(std::process::id() % 97)).map(|i| vec![0u8; 1000 + i as usize * 37]).collect();
    let stdin = std::io::stdin();
    let stdout = std::io::stdout();
    for line in stdin.lock().lines() {
        let Ok(line) = line else { break };
        let Ok(v) = serde_json::from_str::<serde_json::Value>(&line) else { continue };
        let src = v["src"].as_str().unwrap_or("");
        let t = run_p(src);
        let mut so = stdout.lock();
        let _ = writeln!(so, "{}", json!({"id": v["id"], "trace": t.render()}));
        let _ = so.flush();
    }
}

#[derive(GcTrace, Finalize, Clone)]
struct RealmBox {
    realm: Realm,
}

fn new_realm_native(_this: &JsValue, _args: &[JsValue], ctx: &mut Context) -> JsResult<JsValue> {
    // returns a function evaluating source text in a fresh realm of this context
    let realm = ctx.create_realm()?;
    let old = ctx.enter_realm(realm.clone());
    install_print(ctx);
    ctx.enter_realm(old);
    let f = NativeFunction::from_copy_closure_with_captures(
        |_this, args, cap: &RealmBox, ctx| {
            let src = args.first().cloned().unwrap_or_default().to_string(ctx)?.to_std_string_escaped();
            let old = ctx.enter_realm(cap.realm.clone());
            let r = ctx.eval(Source::from_bytes(src.as_bytes()));
            ctx.enter_realm(old);
            r
        },
        RealmBox { realm },
    );
    Ok(boa_engine::object::FunctionObjectBuilder::new(ctx.realm(), f).name(js_string!("evalInRealm")).length(1).build().into())
}

fn install_realm_api(ctx: &mut Context) {
    ctx.register_global_builtin_callable(js_string!("newRealm"), 0, NativeFunction::from_fn_ptr(new_realm_native)).expect("newRealm");
}

fn run_p(src: &str) -> Trace {
    run_with(src, &cfg(), install_realm_api)
}

/// Run `history` programs in other contexts (dropped before), then P on a fresh context.
fn run_after_contexts(history: &[String], p: &str) -> Trace {
    for h in history {
        let _ = run_with(h, &cfg(), install_realm_api);
    }
    run_p(p)
}

/// Sabotage realm A of a context, then run P in a fresh realm B of the SAME context.
fn run_in_second_realm(sabotage: &str, p: &str) -> Trace {
    crate::run::install_panic_hook();
    crate::run::PRINTS.with(|x| x.borrow_mut().clear());
    let c = cfg();
    let res = std::panic::catch_unwind(std::panic::AssertUnwindSafe(|| {
        let mut ctx = Context::default();
        install_print(&mut ctx);
        apply_cfg(&mut ctx, &c);
        let _ = ctx.eval(Source::from_bytes(sabotage.as_bytes()));
        let _ = ctx.run_jobs();
        crate::run::PRINTS.with(|x| x.borrow_mut().clear());
        let realm = match ctx.create_realm() {
            Ok(r) => r,
            Err(e) => return crate::run::throw_class(&e),
        };
        ctx.enter_realm(realm);
        install_print(&mut ctx);
        install_realm_api(&mut ctx);
        let r = ctx.eval(Source::from_bytes(p.as_bytes()));
        let mut comp = classify(&r, p);
        if !matches!(comp, Completion::Throw(_) | Completion::EarlySyntaxError) {
            if let Err(e) = ctx.run_jobs() {
                let c2 = crate::run::throw_class(&e);
                if c2.is_internal_failure() || c2.is_limit() {
                    comp = c2;
                }
            }
        }
        comp
    }));
    let completion = match res {
        Ok(c) => c,
        Err(_) => Completion::Panic(panic_signature(&take_last_panic().unwrap_or_default())),
    };
    let prints = crate::run::PRINTS.with(|x| std::mem::take(&mut *x.borrow_mut()));
    Trace { prints, completion }
}

const REALM_VALUES: &[&str] = &[
    "[1, 2, 3]", "({ a: 1 })", "function f(x) { return x + 1 }", "(() => 7)", "new Error('e')", "new TypeError('t')", "Promise.resolve(5)", "new Map([[1, 2]])", "/re/g",
    "class C { static s() { return 1 } m() { return 2 } }", "(function () { return arguments })(1, 2)", "new Uint8Array([1, 2])", "Symbol.for('shared')", "Symbol.iterator", "new Date(0)",
    "(function* () { yield 1 })()", "Object.create(null)", "[1, [2, [3]]]", "function f() { 'use strict'; return this }", "function f() { return this }", "(function () { return function g() { return new TypeError('x') } })()",
    "new Proxy([], {})", "Array", "Object.prototype", "JSON", "(async function () {})", "new Set([1])", "BigInt(5)", "'str'", "function thrower() { null.x }", "Array.prototype.map", "Function.prototype.call",
];
const REALM_PROBES: &[&str] = &[
    "Object.getPrototypeOf(X) === Array.prototype", "X instanceof Array", "Array.isArray(X)", "X instanceof Object", "X instanceof Function", "X instanceof Error", "typeof X",
    "X && X.constructor === Array", "X && X.constructor === Object", "X && X.constructor === Function", "Object.prototype.toString.call(X)", "X && X.constructor && X.constructor.name",
    "(function () { try { X(); return 'no throw' } catch (e) { return e instanceof TypeError ? 'own TypeError' : (e && e.constructor && e.constructor.name === 'TypeError') ? 'foreign TypeError' : 'other' } })()",
    "(function () { try { return typeof X() } catch (e) { return 'threw ' + (e instanceof Error) } })()",
    "(function () { try { var r = new X(2); return [r instanceof Array, Array.isArray(r), r instanceof X] } catch (e) { return 'threw ' + (e instanceof TypeError) } })()",
    "(function () { try { if (!Array.isArray(X)) return 'not an array'; var r = X.map(function (v) { return v }); return [r instanceof Array, Array.isArray(r), Object.getPrototypeOf(r) === Array.prototype] } catch (e) { return 'threw ' + (e instanceof TypeError) } })()",
    "(function () { try { var r = Array.prototype.concat.call(X, [9]); return [r instanceof Array, r.length] } catch (e) { return 'threw' } })()",
    "(function () { try { var r = Array.from(X); return [r instanceof Array, r.length] } catch (e) { return 'threw ' + (e instanceof TypeError) } })()",
    "(function () { try { var r = X.then(function (v) { print('then', v) }); return [r instanceof Promise, Object.getPrototypeOf(r) === Promise.prototype] } catch (e) { return 'threw ' + (e instanceof TypeError) } })()",
    "(function () { try { return Promise.resolve(X) === X } catch (e) { return 'threw' } })()",
    "X === Symbol.iterator", "X === Symbol.for('shared')", "(function () { try { return Function.prototype.call.call(X, null, 3) === globalThis } catch (e) { return 'threw ' + (e instanceof TypeError) } })()",
    "(function () { try { return X.call(undefined) === globalThis } catch (e) { return 'threw' } })()", "(function () { try { return X.call([5, 6], function (v) { return v * 2 }) instanceof Array } catch (e) { return 'threw ' + (e instanceof TypeError) } })()",
    "JSON.stringify(X)", "(function () { try { return structuredCloneMissing } catch (e) { return e instanceof ReferenceError } })()",
    "(function () { try { return Object.getPrototypeOf(Object.getPrototypeOf(X)) === Object.prototype } catch (e) { return 'threw' } })()",
];

fn realm_program(t: &mut Tape<'_>) -> String {
    let mut s = String::from(prog::PRELUDE);
    s.push_str("var other = newRealm();\n");
    let n = 2 + t.below(5);
    for i in 0..n {
        let v = *t.pick(REALM_VALUES);
        let dir = t.below(3);
        match dir {
            0 => s.push_str(&format!("var X = other({});\n", js_str(&format!("({v})")))),
            1 => {
                // value of THIS realm observed from the other realm
                s.push_str(&format!("var X = ({v});\nother('var probe = function (X) {{ return [typeof X, X instanceof Object, X instanceof Array, Array.isArray(X), Object.getPrototypeOf(Object(X)) === Object.getPrototypeOf(Object(X)).constructor.prototype] }}');\nprint('case {i} from-here', show(other('probe')(X)));\n"));
            }
            _ => {
                // isolation: mutate intrinsics in the other realm, observe here
                let m = *t.pick(&[
                    "Array.prototype.foo = 1; Object.prototype[0] = 'z'; Array.prototype[Symbol.iterator] = null;",
                    "Object.freeze(Object.prototype); delete Array.prototype.map; Promise.prototype.then = 5;",
                    "globalThis.leak = 1; var leak2 = 2; Object.defineProperty(Object.prototype, 'q', { get() { return 'q' } });",
                    "Symbol.for('shared').description; Function.prototype.call = null; String.prototype.trim = function () { return 'T' };",
                ]);
                s.push_str(&format!("other({});\nprint('case {i} isolation', typeof [].foo, ({{}})[0], typeof [].map, typeof Promise.prototype.then, typeof leak, typeof leak2, ({{}}).q, ' x '.trim(), [...[1, 2]].length, Object.isFrozen(Object.prototype));\nvar X = other('[1]');\n", js_str(m)));
            }
        }
        let k = 2 + t.below(5);
        for _ in 0..k {
            let p = *t.pick(REALM_PROBES);
            s.push_str(&format!("try {{ print('case {i}', show({p})); }} catch (e) {{ print('case {i} probe threw', e instanceof Error); }}\n"));
        }
    }
    s
}

fn js_str(s: &str) -> String {
    let mut o = String::from("'");
    for c in s.chars() {
        match c {
            '\'' => o.push_str("\\'"),
            '\\' => o.push_str("\\\\"),
            '\n' => o.push_str("\\n"),
            c => o.push(c),
        }
    }
    o.push('\'');
    o
}

/// V8 side of `newRealm`: provided by a prelude that uses the oracle's `__newContext` hook.
fn node_realm_script(server: &mut Server, src: &str) -> Result<(Vec<String>, String), String> {
    let v = server.call(json!({"kind":"script","src":src,"timeout":5000,"realm_api":true}))?;
    let prints = v["prints"].as_array().map(|a| a.iter().map(|x| x.as_str().unwrap_or("").to_string()).collect()).unwrap_or_default();
    Ok((prints, v["completion"].as_str().unwrap_or("").to_string()))
}

impl C20 {
    fn check_determinism(&self, src: &str, tape: &[u8], observations: usize, labels: Vec<&'static str>) -> CaseOut {
        let base = run_p(src);
        if base.completion.is_limit() {
            return CaseOut::skip(src.to_string(), "boa-limit");
        }
        if let Completion::Panic(_) = base.completion {
            // C02's business; determinism of a crash is not claimed
            return CaseOut::skip(src.to_string(), "panics (C02)");
        }
        // (a) again, same process
        let again = run_p(src);
        if let Some((sig, d)) = diff_traces("first", &base, "second-run", &again) {
            return CaseOut::fail(src.to_string(), format!("repeat: {sig}"), d);
        }
        let mut t = Tape::new(tape);
        // (b) other contexts first
        let k = 1 + t.below(3);
        let mut hist = vec![];
        for i in 0..k {
            let part = &tape[(i * 40).min(tape.len())..];
            hist.push(match t.below(3) {
                0 => order::generate(part).0,
                1 => wild::generate(part).src,
                _ => prog::generate(part, prog::Opts::core()).src,
            });
        }
        if std::env::var_os("BV_C20_TRACE").is_some() {
            for (i, h) in hist.iter().enumerate() {
                let _ = std::fs::write(format!("/tmp/c20_hist_{i}.js"), h);
            }
            eprintln!("c20: base ok, running {} history programs", hist.len());
        }
        let after = run_after_contexts(&hist, src);
        if std::env::var_os("BV_C20_TRACE").is_some() {
            eprintln!("c20: history ok");
        }
        if let Some((sig, d)) = diff_traces("fresh-thread-state", &base, "after-other-contexts", &after) {
            return CaseOut::fail(src.to_string(), format!("after-contexts: {sig}"), d);
        }
        // (b') the allocation history of the thread decides WHEN collections happen: the same program under
        // a different collection schedule (every k-th allocation) must give the same trace. WeakRef and
        // FinalizationRegistry may legitimately observe collections (that exception is C10's subject).
        if !src.contains("WeakRef") && !src.contains("FinalizationRegistry") {
            let k = [1u64, 2, 5, 17][t.below(4)];
            let stressed = run_with(src, &RunCfg { gc_stress: k, ..cfg() }, install_realm_api);
            if let Some((sig, d)) = diff_traces("fresh-thread-state", &base, "other-collection-schedule", &stressed) {
                return CaseOut::fail(src.to_string(), format!("collection-schedule: {sig}"), format!("collect every {k}-th allocation\n{d}"));
            }
        }
        // (c) sabotage in another context first
        let after = run_after_contexts(&[order::SABOTAGE.to_string()], src);
        if let Some((sig, d)) = diff_traces("fresh-thread-state", &base, "after-sabotaged-context", &after) {
            return CaseOut::fail(src.to_string(), format!("after-sabotage-context: {sig}"), d);
        }
        // (d) sabotage in another realm of the same context
        let after = run_in_second_realm(order::SABOTAGE, src);
        if let Some((sig, d)) = diff_traces("fresh-context", &base, "fresh-realm-after-sabotaged-realm", &after) {
            return CaseOut::fail(src.to_string(), format!("after-sabotage-realm: {sig}"), d);
        }
        // (e) another process
        match trace_other_process(src, t.u16() as u64) {
            Ok(other) => {
                if other != base.render() {
                    return CaseOut::fail(src.to_string(), "other-process: traces differ", format!("--- this process\n{}\n--- other process\n{other}", base.render()));
                }
            }
            Err(e) => return CaseOut::skip(src.to_string(), format!("tracer-unavailable: {e}")),
        }
        CaseOut::pass(src.to_string(), observations >= 3).with_labels(labels)
    }

    fn check_realm(&self, env: &mut Env, src: &str) -> CaseOut {
        let boa = run_p(src);
        let node = match env.node() {
            Ok(n) => n,
            Err(e) => return CaseOut::skip(src.to_string(), format!("oracle-unavailable: {e}")),
        };
        let (np, nc) = match node_realm_script(node, src) {
            Ok(x) => x,
            Err(e) => return CaseOut::skip(src.to_string(), format!("oracle-error: {e}")),
        };
        if nc == "limit:timeout" {
            return CaseOut::skip(src.to_string(), "v8-timeout");
        }
        let v8 = Trace { prints: np, completion: Completion::Value(String::new()) };
        if boa.prints != v8.prints || boa.completion.render() != nc {
            let k = boa.prints.iter().zip(v8.prints.iter()).position(|(a, b)| a != b).unwrap_or(0);
            let line = boa.prints.get(k).cloned().unwrap_or_default();
            let probe: String = line.split(' ').take(2).collect::<Vec<_>>().join(" ");
            return CaseOut::fail(src.to_string(), format!("realm: boa differs from V8 ({probe})"), format!("--- boa\n{}\n--- v8\n{}\n=> {nc}", boa.render(), v8.prints.join("\n")));
        }
        // isolation also against the second-realm history
        let again = run_in_second_realm(order::SABOTAGE, src);
        if let Some((sig, d)) = diff_traces("fresh-context", &boa, "fresh-realm-after-sabotaged-realm", &again) {
            return CaseOut::fail(src.to_string(), format!("realm after-sabotage-realm: {sig}"), d);
        }
        CaseOut::pass(src.to_string(), boa.prints.len() >= 4).with_labels(vec!["cross-realm"])
    }
}

impl Prop for C20 {
    fn id(&self) -> &'static str {
        "C20"
    }
    fn streams(&self, tier: Tier) -> Vec<Stream> {
        let m = if tier == Tier::Quick { 1 } else { 40 };
        vec![
            Stream::new("order", 1500 * m, 400).batch(50),
            Stream::new("core", 800 * m, 700).batch(50),
            Stream::new("wild", 700 * m, 200).batch(50),
            Stream::new("realm", 1500 * m, 200).batch(100),
        ]
    }
    fn rule(&self) -> String {
        "determinism streams (order = programs observing property/Map/Set/JSON/sort/template/name order after random inserts and deletes; core = gen::prog; wild = random builtin calls): each program P is run (a) twice on fresh contexts, (b) after 1-3 other contexts ran random programs and were dropped, (b') under a different collection schedule (a collection every k-th allocation, k in {1,2,5,17}; programs mentioning WeakRef/FinalizationRegistry exempt), (c) after another context was sabotaged (every configurable builtin reachable from its global deleted/overwritten/frozen/re-prototyped), (d) in a fresh realm of a context whose first realm was sabotaged, (e) in another process (different ASLR, hash seeds, environment size); all traces must be byte-identical. realm stream: programs that create a second realm through a host newRealm() (test262-style evalScript), pass values across in both directions and probe instanceof/prototype identity/species/thrown-error realm/this-binding, plus intrinsic mutations in one realm observed from the other; boa's trace must equal V8's (vm contexts) and be unaffected by a sabotaged sibling realm. Non-trivial = >= 3 order-sensitive observations (determinism) / >= 4 probe lines (realm); distinct = distinct source".into()
    }
    fn assumptions(&self) -> Vec<String> {
        vec!["programs avoid Math.random, Date.now, performance, locale".into()]
    }
    fn run_case(&self, env: &mut Env, stream: &str, _index: u64, tape: &[u8]) -> CaseOut {
        match stream {
            "order" => {
                let (src, obs) = order::generate(tape);
                self.check_determinism(&src, tape, obs, vec!["order-program"])
            }
            "core" => {
                let p = prog::generate(tape, prog::Opts::core());
                self.check_determinism(&p.src, tape, 3, vec!["core-program"])
            }
            "wild" => {
                let w = wild::generate(tape);
                self.check_determinism(&w.src, tape, w.calls, vec!["wild-program"])
            }
            _ => {
                let mut t = Tape::new(tape);
                let src = realm_program(&mut t);
                self.check_realm(env, &src)
            }
        }
    }
    fn run_rendered(&self, env: &mut Env, stream: &str, rendered: &str) -> Option<CaseOut> {
        if stream == "realm" {
            Some(self.check_realm(env, rendered))
        } else {
            Some(self.check_determinism(rendered, rendered.as_bytes(), 3, vec![]))
        }
    }
}
