//! C04 — binding-placement and operand shortcuts never change behaviour:
//! trace(P, all shortcuts on) = trace(P, S off) for subsets S of
//! {locals-in-registers, const-cache, loop-hoist, fused-branch}.

use crate::driver::{CaseOut, Env, Prop, Stream, Tier};
use crate::genp::prog::{Opts, generate};
use crate::run::{RunCfg, diff_traces, run_with_dump};

pub struct C04;

fn cfg_for(mask: u8) -> RunCfg {
    RunCfg { force_escape: mask & 1 != 0, no_const_cache: mask & 2 != 0, no_hoist: mask & 4 != 0, no_fusion: mask & 8 != 0, ..RunCfg::default() }
}
fn mask_name(mask: u8) -> String {
    if mask == 0 {
        return "all-on".into();
    }
    let mut v = vec![];
    if mask & 1 != 0 { v.push("registers-off"); }
    if mask & 2 != 0 { v.push("const-cache-off"); }
    if mask & 4 != 0 { v.push("hoist-off"); }
    if mask & 8 != 0 { v.push("fusion-off"); }
    v.join("+")
}

fn code_fingerprint(d: &[boa_engine::verif::BlockDump]) -> (u64, bool, bool, bool) {
    let mut h = 0xcbf29ce484222325u64;
    let mut has_env = false;
    let mut has_fused = false;
    let mut has_reglocal = false;
    for b in d {
        if b.name == "show" {
            continue;
        }
        for i in &b.instructions {
            for c in i.name.bytes() {
                h ^= u64::from(c);
                h = h.wrapping_mul(0x100000001b3);
            }
            if i.name == "PushScope" {
                has_env = true;
            }
            if i.name.starts_with("JumpIfNot") && i.name != "JumpIfNotUndefined" {
                has_fused = true;
            }
        }
        // a user binding that lives in a register: the block declares locals but has fewer
        // binding-table entries than names; approximated by: register_count > 6 and no PushScope in this block
        if b.register_count > 8 && !b.instructions.iter().any(|i| i.name == "PushScope") {
            has_reglocal = true;
        }
    }
    (h, has_env, has_fused, has_reglocal)
}

impl C04 {
    fn check_src(&self, env: &mut Env, src: &str, labels: Vec<&'static str>) -> CaseOut {
        let (base, base_dump) = run_with_dump(src, &cfg_for(0));
        if base.completion.is_limit() {
            return CaseOut::skip(src.to_string(), "boa-limit");
        }
        let masks: Vec<u8> = if env.tier == Tier::Thorough { (1..16).collect() } else { vec![15, 1, 2, 4, 8] };
        let fp0 = code_fingerprint(&base_dump);
        let mut differs = false;
        for m in masks {
            let (t, d) = run_with_dump(src, &cfg_for(m));
            if m == 15 {
                differs = code_fingerprint(&d).0 != fp0.0;
            }
            if let Some((sig, detail)) = diff_traces("all-on", &base, &mask_name(m), &t) {
                return CaseOut::fail(src.to_string(), format!("{}: {sig}", mask_name(m)), detail).with_labels(labels);
            }
        }
        let mut labels = labels;
        if differs { labels.push("configs-generate-different-code"); }
        if fp0.1 { labels.push("has-environment-binding"); }
        if fp0.2 { labels.push("has-fused-branch"); }
        let nontrivial = differs && base.prints.len() >= 2;
        CaseOut::pass(src.to_string(), nontrivial).with_labels(labels)
    }
}

impl Prop for C04 {
    fn id(&self) -> &'static str {
        "C04"
    }
    fn streams(&self, tier: Tier) -> Vec<Stream> {
        let m = if tier == Tier::Quick { 1 } else { 40 };
        vec![Stream::new("scope", 4000 * m, 700).batch(100), Stream::new("scope-main", 2000 * m, 700).batch(100)]
    }
    fn rule(&self) -> String {
        "programs from gen::prog profile scope (closures incl. in loops and default parameters, TDZ probes, loops with relational heads, direct eval, with, generators; stream scope-main puts the body in a function so top-level bindings become locals); run with all shortcuts on, with all four forced off (every binding in an environment, no const cache, no loop hoist, no fused branch) and with each single shortcut off [thorough: all 15 non-empty subsets]; traces must be equal; non-trivial = the all-on and all-off compilations produce different opcode sequences (so the configurations really differ) and the program prints >= 2 lines".into()
    }
    fn run_case(&self, env: &mut Env, stream: &str, _index: u64, tape: &[u8]) -> CaseOut {
        let mut o = Opts::scope();
        if stream == "scope-main" {
            o.in_main = true;
        }
        let p = generate(tape, o);
        let mut labels = p.labels.clone();
        labels.extend(p.excluded.iter());
        self.check_src(env, &p.src, labels)
    }
    fn run_rendered(&self, env: &mut Env, _stream: &str, rendered: &str) -> Option<CaseOut> {
        Some(self.check_src(env, rendered, vec![]))
    }
}
