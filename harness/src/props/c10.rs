//! C10 — garbage collection is unobservable to scripts (modulo WeakRef/FinalizationRegistry
//! reporting genuinely unreachable objects at most once) and leaves nothing behind:
//! trace(P, collect every k-th allocation) = trace(P, never); heap(after drop + collect) = heap(before).

use crate::driver::{CaseOut, Env, Prop, Stream, Tier};
use crate::genp::{order, prog, weak, wild};
use crate::run::{RunCfg, Trace, diff_traces, run};
use crate::tape::Tape;

pub struct C10;

fn cfg(stress: u64) -> RunCfg {
    RunCfg { gc_stress: stress, loop_limit: 200_000, ..RunCfg::default() }
}

/// allocations and collections during a run (from the gc hook counters)
fn measured(src: &str, stress: u64) -> (Trace, u64, usize) {
    let before = boa_gc::verif::stats();
    let t = run(src, &cfg(stress));
    let after = boa_gc::verif::stats();
    (t, after.allocations - before.allocations, after.collections - before.collections)
}

const ASYNC_SNIPPETS: &[&str] = &[
    "async function af(x) { var a = [x, { x: x }]; await null; var b = a.concat([await Promise.resolve(x + 1)]); return b; }\naf(1).then(function (v) { print(show(v)); });\n",
    "function* g() { var o = { n: 1 }; var got = yield o; o.n += got; yield [o, got]; return o; }\nvar it = g(); print(show(it.next())); var big = []; for (var i = 0; i < 50; i++) big.push({ i: i }); print(show(it.next(5))); print(show(it.next()));\n",
    "var p = new Promise(function (res) { res({ then(r) { r([1, 2, 3].map(function (x) { return { x: x } })) } }) });\np.then(function (v) { print(show(v)); return Promise.all([v, Promise.resolve({ k: 1 })]); }).then(function (v) { print(show(v)); });\n",
    "async function* ag() { for (var i = 0; i < 3; i++) { yield { i: i, arr: new Array(5).fill(i) }; } }\n(async function () { for await (var v of ag()) print(show(v)); })();\n",
    "var bound = (function (a, b) { return [this, a, b] }).bind({ t: 1 }, { a: 1 });\nvar junk = []; for (var i = 0; i < 60; i++) junk.push('s' + i);\nprint(show(bound({ b: 2 })));\n",
    "var px = new Proxy({ a: 1 }, { get(t, k, r) { return [k, t[k]] }, ownKeys(t) { return ['a', 'zz'] }, getOwnPropertyDescriptor(t, k) { return { value: 1, configurable: true, enumerable: true } } });\nprint(show(px.a), show(Object.keys(px)));\n",
    "class A { #priv = { p: [1, 2] }; static make() { return new A() } get() { return this.#priv } }\nvar list = []; for (var i = 0; i < 30; i++) list.push(A.make()); print(show(list[29].get()), list.length);\n",
    "var re = /(a+)(b)?/g; var out = []; 'aab ab aaa'.replace(re, function (m, a, b, off) { out.push([m, a, b, off]); return m.toUpperCase() }); print(show(out));\nprint(show([...'xaby'.matchAll(/(?<q>a)(b)/g)].map(function (m) { return [m.index, m.groups.q] })));\n",
    "var ta = new Float64Array(16); for (var i = 0; i < 16; i++) ta[i] = i / 2; var sub = ta.subarray(4, 8); var cp = sub.map(function (x) { return x * 2 }); print(show(Array.from(cp)), sub.buffer === ta.buffer);\n",
    "var m = new Map(); for (var i = 0; i < 40; i++) m.set({ i: i }, [i]); var it2 = m.entries(); var first = it2.next().value; m.clear(); print(show(first[1]), m.size, show(it2.next()));\n",
    "var s = new Set(); var objs = []; for (var i = 0; i < 20; i++) { var o = { i: i }; objs.push(o); s.add(o); } objs.length = 5; var c = 0; s.forEach(function (v) { c += v.i; if (v.i < 3) s.delete(v) }); print(c, s.size);\n",
    "function outer() { var big = new Array(30).fill(0).map(function (_, i) { return { i: i } }); return function () { return big.length + big[7].i } }\nvar fs = []; for (var i = 0; i < 10; i++) fs.push(outer()); print(fs.map(function (f) { return f() }).join(','));\n",
    "var err; try { null.x } catch (e) { err = e } var errs = []; for (var i = 0; i < 20; i++) errs.push(new RangeError('r' + i)); print(err instanceof TypeError, errs[19] instanceof RangeError, errs.length);\n",
    "var str = ''; for (var i = 0; i < 200; i++) str += String.fromCharCode(97 + i % 26); var parts = str.split('e'); print(parts.length, parts[3], str.slice(10, 20).toUpperCase(), JSON.stringify({ s: str.slice(0, 5), a: [1, { b: 2 }] }));\n",
    "var sym = Symbol('k'); var o = { [sym]: { deep: [1, 2] } }; var d = Object.getOwnPropertyDescriptors(o); var clone = Object.defineProperties({}, d); print(show(clone[sym]), Object.getOwnPropertySymbols(clone).length);\n",
];

impl C10 {
    fn schedules(t: &mut Tape<'_>, allocs: u64, tier: Tier) -> Vec<u64> {
        let mut v = vec![];
        if allocs < 3000 {
            v.push(1);
        }
        let pool = [2u64, 3, 7, 64, 5, 13];
        v.push(pool[t.below(pool.len())]);
        if tier == Tier::Thorough {
            v.push(pool[t.below(pool.len())]);
            v.push(2 + t.below(200) as u64);
        }
        v.dedup();
        v
    }

    fn check_plain(&self, env: &Env, src: &str, tape: &[u8], labels: Vec<&'static str>) -> CaseOut {
        let (base, allocs, _) = measured(src, 0);
        if base.completion.is_limit() {
            return CaseOut::skip(src.to_string(), "boa-limit");
        }
        let mut t = Tape::new(tape);
        let mut max_coll = 0;
        for k in Self::schedules(&mut t, allocs, env.tier) {
            let (tr, _, colls) = measured(src, k);
            max_coll = max_coll.max(colls);
            if let Some((sig, d)) = diff_traces("no-collection", &base, &format!("collect-every-{k}"), &tr) {
                return CaseOut::fail(src.to_string(), format!("gc-stress: {sig}"), format!("schedule: collect every {k}-th allocation\n{d}")).with_labels(labels);
            }
        }
        let nontrivial = max_coll >= 5 && allocs >= 50;
        CaseOut::pass(src.to_string(), nontrivial).with_labels(labels)
    }

    fn check_weak(&self, env: &Env, wp: &weak::WeakProgram, tape: &[u8]) -> CaseOut {
        let src = &wp.src;
        let strip = |t: &Trace| -> Trace {
            Trace { prints: t.prints.iter().filter(|l| !l.starts_with("cleanup ") && !l.starts_with("deref ")).cloned().collect(), completion: t.completion.clone() }
        };
        let (base, allocs, _) = measured(src, 0);
        let mut t = Tape::new(tape);
        let mut saw_dead = false;
        let mut saw_cleanup = false;
        for k in Self::schedules(&mut t, allocs, env.tier).into_iter().chain([0]) {
            let (tr, _, _) = measured(src, k);
            if let Some((sig, d)) = diff_traces("no-collection", &strip(&base), &format!("collect-every-{k}"), &strip(&tr)) {
                return CaseOut::fail(src.to_string(), format!("weak gc-stress: {sig}"), d);
            }
            let mut seen = std::collections::HashSet::new();
            for l in &tr.prints {
                if let Some(h) = l.strip_prefix("cleanup ") {
                    saw_cleanup = true;
                    if wp.never_cleanup.iter().any(|x| x == h) {
                        return CaseOut::fail(src.to_string(), "weak: cleanup for a reachable or unregistered target", format!("schedule {k}: {l}\n{}", tr.render()));
                    }
                    if !wp.may_cleanup.iter().any(|x| x == h) {
                        return CaseOut::fail(src.to_string(), "weak: cleanup with unknown held value", format!("schedule {k}: {l}\n{}", tr.render()));
                    }
                    if !seen.insert(h.to_string()) {
                        return CaseOut::fail(src.to_string(), "weak: cleanup ran twice for one registration", format!("schedule {k}: {l}\n{}", tr.render()));
                    }
                }
                if let Some(rest) = l.strip_prefix("deref ") {
                    let mut it = rest.split(' ');
                    let name = it.next().unwrap_or("");
                    let st = it.next().unwrap_or("");
                    if st == "dead" {
                        saw_dead = true;
                        if wp.must_live.iter().any(|x| x == name) {
                            return CaseOut::fail(src.to_string(), "weak: deref() lost a strongly reachable target", format!("schedule {k}: {l}\n{}", tr.render()));
                        }
                    }
                }
                if l.starts_with("same-job") && l.contains("false") {
                    return CaseOut::fail(src.to_string(), "weak: target died within the job that created its WeakRef", format!("schedule {k}: {l}\n{}", tr.render()));
                }
            }
        }
        let mut labels = vec!["weak-program"];
        if saw_dead {
            labels.push("weak-target-collected");
        }
        if saw_cleanup {
            labels.push("finalization-callback-ran");
        }
        CaseOut::pass(src.to_string(), saw_dead || saw_cleanup).with_labels(labels)
    }

    /// leak clause: after dropping a context (and everything else) two collections bring the
    /// heap back to the baseline taken after one warm-up context.
    fn check_leak(&self, src: &str) -> CaseOut {
        boa_gc::force_collect();
        boa_gc::force_collect();
        // warm-up context so that by-design per-thread caches are in the baseline
        let _ = run("1", &cfg(0));
        boa_gc::force_collect();
        boa_gc::force_collect();
        let base = boa_gc::verif::stats();
        let t = run(src, &cfg(0));
        boa_gc::force_collect();
        boa_gc::force_collect();
        boa_gc::force_collect();
        let after = boa_gc::verif::stats();
        if after.strongs != base.strongs || after.ephemerons != base.ephemerons || after.weak_maps != base.weak_maps {
            return CaseOut::fail(
                src.to_string(),
                format!("leak: heap not reclaimed after context drop (strongs {:+}, ephemerons {:+}, weak maps {:+})", after.strongs as i64 - base.strongs as i64, after.ephemerons as i64 - base.ephemerons as i64, after.weak_maps as i64 - base.weak_maps as i64),
                format!("baseline {base:?}\nafter    {after:?}\n{}", t.render()),
            );
        }
        CaseOut::pass(src.to_string(), t.prints.len() >= 2).with_labels(vec!["leak-check"])
    }
}

impl Prop for C10 {
    fn id(&self) -> &'static str {
        "C10"
    }
    fn streams(&self, tier: Tier) -> Vec<Stream> {
        let m = if tier == Tier::Quick { 1 } else { 40 };
        vec![
            Stream::new("core", 700 * m, 500).batch(25),
            Stream::new("structures", 600 * m, 300).batch(25),
            Stream::new("wild", 400 * m, 200).batch(25),
            Stream::new("weak", 500 * m, 200).batch(25),
            Stream::new("leak", 300 * m, 400).batch(25),
        ]
    }
    fn rule(&self) -> String {
        "programs (core = gen::prog; structures = 2-4 allocation-heavy snippets using async functions, generators suspended across collections, thenables, async generators, bound functions, proxies, private fields, regexps, typed arrays, Map/Set iterators, closures, errors, ropes, symbols; wild = random builtin calls) are run with no collection and with a forced collection at every k-th allocation after context creation (k=1 when the run allocates < 3000 objects, plus k drawn from {2,3,5,7,13,64}; thorough adds two more incl. a tape-random k); traces must be equal. weak = generated WeakRef/FinalizationRegistry/WeakMap/WeakSet programs where the generator knows which targets stay reachable: all non-weak prints must be equal; cleanup callbacks only for dropped, still-registered targets, at most once; deref() never loses a reachable target nor a target within the job that created the WeakRef. leak = heap statistics (strong boxes, ephemerons, weak maps) after dropping the context and collecting equal the baseline taken after a warm-up context. Non-trivial = >= 5 collections happened during the run and >= 50 allocations (weak: a target was observed collected or a cleanup ran; leak: program printed >= 2 lines); distinct = distinct source".into()
    }
    fn run_case(&self, env: &mut Env, stream: &str, _index: u64, tape: &[u8]) -> CaseOut {
        match stream {
            "core" => {
                let mut o = prog::Opts::core();
                o.max_stmts = 8;
                let p = prog::generate(tape, o);
                self.check_plain(env, &p.src, tape, vec!["core-program"])
            }
            "structures" => {
                let mut t = Tape::new(tape);
                let mut s = String::from(prog::PRELUDE);
                let n = 2 + t.below(3);
                for _ in 0..n {
                    s.push_str("{\n");
                    s.push_str(&t.pick(ASYNC_SNIPPETS).replace("var ", "let "));
                    s.push_str("}\n");
                }
                self.check_plain(env, &s, tape, vec!["structures-program"])
            }
            "wild" => self.check_plain(env, &wild::generate(tape).src, tape, vec!["wild-program"]),
            "weak" => self.check_weak(env, &weak::generate(tape), tape),
            _ => {
                let mut t = Tape::new(tape);
                let src = match t.below(4) {
                    0 => prog::generate(&tape[1.min(tape.len())..], prog::Opts::core()).src,
                    1 => order::generate(&tape[1.min(tape.len())..]).0,
                    2 => weak::generate(&tape[1.min(tape.len())..]).src,
                    _ => {
                        let mut s = String::from(prog::PRELUDE);
                        for _ in 0..3 {
                            s.push_str("{\n");
                            s.push_str(&t.pick(ASYNC_SNIPPETS).replace("var ", "let "));
                            s.push_str("}\n");
                        }
                        s
                    }
                };
                self.check_leak(&src)
            }
        }
    }
    fn run_rendered(&self, env: &mut Env, stream: &str, rendered: &str) -> Option<CaseOut> {
        match stream {
            "leak" => Some(self.check_leak(rendered)),
            "weak" => None,
            _ => Some(self.check_plain(env, rendered, rendered.as_bytes(), vec![])),
        }
    }
}
