//! Static bytecode verifier (C03): structural validity of one code block and depth consistency
//! of the environment chain, the pending binding-reference stack and the argument (value)
//! stack on ALL control-flow paths, including exception edges.

use boa_engine::verif::{BlockDump, ConstDump, InstrDump, Operand};
use std::collections::HashMap;

#[derive(Clone, Debug, PartialEq, Eq)]
pub struct Violation {
    /// stable kind, e.g. "register-out-of-range", "depth-mismatch-at-merge:binding"
    pub kind: String,
    pub pc: u32,
    pub detail: String,
}

#[derive(Clone, Copy, Debug, PartialEq, Eq)]
struct Depths {
    env: i32,
    bind: i32,
    stack: i32,
    private_env: i32,
}

/// Outcome of verifying one block.
#[derive(Default, Debug)]
pub struct Report {
    pub violations: Vec<Violation>,
    /// landing pads whose argument/binding depth at some protected instruction exceeds the depth
    /// at the handler start (the VM does not truncate these stacks on unwind): known finding class
    pub handler_leftovers: Vec<Violation>,
    pub unmodelled: Vec<String>,
    pub instructions: usize,
    pub branches: usize,
    pub handlers: usize,
}

fn operand_regs(op: &Operand) -> Vec<u32> {
    match op {
        Operand::Reg(r) => vec![*r],
        Operand::Regs(v) => v.clone(),
        _ => vec![],
    }
}

/// (delta env, delta bind, delta stack, delta private env) of an instruction on its normal exit
fn effect(i: &InstrDump) -> Option<(i32, i32, i32, i32)> {
    let argc = |name: &str| -> i32 {
        i.fields.iter().find(|(n, _)| *n == name).and_then(|(_, o)| if let Operand::Index(v) = o { Some(*v as i32) } else { None }).unwrap_or(0)
    };
    Some(match i.name {
        "PushScope" | "PushObjectEnvironment" => (1, 0, 0, 0),
        "PopEnvironment" => (-1, 0, 0, 0),
        "PushPrivateEnvironment" => (0, 0, 0, 1),
        "PopPrivateEnvironment" => (0, 0, 0, -1),
        "GetLocator" | "GetNameAndLocator" => (0, 1, 0, 0),
        "SetNameByLocator" => (0, -1, 0, 0),
        "Pop" | "PopIntoRegister" => (0, 0, -1, 0),
        "PushFromRegister" => (0, 0, 1, 0),
        "Call" | "CallEval" | "New" | "SuperCall" => (0, 0, -(argc("argument_count") + 2) + 1, 0),
        "CallSpread" | "CallEvalSpread" | "NewSpread" | "SuperCallSpread" => (0, 0, -3 + 1, 0),
        "SuperCallDerived" => (0, 0, 1, 0),
        "Generator" | "AsyncGenerator" => (0, 0, 1, 0),
        "GeneratorYield" | "AsyncGeneratorYield" | "Await" => (0, 0, 2, 0),
        _ => (0, 0, 0, 0),
    })
}

const KNOWN_OPS: &[&str] = &[
    "Pop", "StoreZero", "StoreOne", "StoreInt8", "StoreInt16", "StoreInt32", "StoreFloat", "StoreDouble", "StoreNan", "StorePositiveInfinity", "StoreNegativeInfinity", "StoreNull", "StoreTrue", "StoreFalse", "StoreUndefined",
    "StoreLiteral", "StoreRegexp", "StoreEmptyObject", "StoreClassPrototype", "SetClassPrototype", "SetHomeObject", "GetHomeObject", "SetPrototype", "GetPrototype", "StoreNewArray", "PushValueToArray", "PushElisionToArray",
    "PushIteratorToArray", "Add", "Sub", "Div", "Mul", "Mod", "Pow", "ShiftRight", "ShiftLeft", "UnsignedShiftRight", "BitOr", "BitAnd", "BitXor", "BitNot", "In", "InPrivate", "Eq", "StrictEq", "NotEq", "StrictNotEq", "GreaterThan",
    "GreaterThanOrEq", "LessThan", "LessThanOrEq", "InstanceOf", "LogicalAnd", "LogicalOr", "Coalesce", "TypeOf", "LogicalNot", "Pos", "Neg", "Inc", "Dec", "DefVar", "DefInitVar", "PutLexicalValue", "ThrowMutateImmutable", "GetArgument",
    "GetName", "GetNameGlobal", "GetLocator", "GetNameAndLocator", "GetNameOrUndefined", "SetName", "SetNameByLocator", "DeleteName", "GetMethod", "GetLengthProperty", "GetPropertyByName", "GetPropertyByNameWithThis", "GetPropertyByValue",
    "GetPropertyByValuePush", "SetPropertyByName", "SetPropertyByNameWithThis", "SetFunctionName", "DefineOwnPropertyByName", "DefineClassStaticMethodByName", "DefineClassMethodByName", "SetPropertyByValue", "DefineOwnPropertyByValue",
    "DefineClassStaticMethodByValue", "DefineClassMethodByValue", "SetPropertyGetterByName", "DefineClassStaticGetterByName", "DefineClassGetterByName", "SetPropertyGetterByValue", "DefineClassStaticGetterByValue", "DefineClassGetterByValue",
    "SetPropertySetterByName", "DefineClassStaticSetterByName", "DefineClassSetterByName", "SetPropertySetterByValue", "DefineClassStaticSetterByValue", "DefineClassSetterByValue", "SetPrivateField", "DefinePrivateField", "SetPrivateMethod",
    "SetPrivateSetter", "SetPrivateGetter", "GetPrivateField", "PushClassField", "PushClassFieldPrivate", "PushClassPrivateGetter", "PushClassPrivateSetter", "PushClassPrivateMethod", "DeletePropertyByName", "DeletePropertyByValue",
    "DeleteSuperThrow", "CopyDataProperties", "ToPropertyKey", "Jump", "JumpIfTrue", "JumpIfFalse", "JumpIfNotUndefined", "JumpIfNullOrUndefined", "JumpIfNotLessThan", "JumpIfNotLessThanOrEqual", "JumpIfNotGreaterThan",
    "JumpIfNotGreaterThanOrEqual", "JumpIfNotEqual", "JumpTable", "Throw", "ReThrow", "Exception", "MaybeException", "ThrowNewTypeError", "ThrowNewReferenceError", "GetFunctionObject", "This", "ThisForObjectEnvironmentName", "SuperCall",
    "SuperCallSpread", "SuperCallDerived", "BindThisValue", "ImportCall", "Case", "GetFunction", "CallEval", "CallEvalSpread", "Call", "CallSpread", "New", "NewSpread", "CheckReturn", "Return", "AsyncGeneratorClose", "Generator",
    "AsyncGenerator", "SetAccumulator", "SetRegisterFromAccumulator", "Move", "PopIntoRegister", "PushFromRegister", "PushScope", "PushObjectEnvironment", "PopEnvironment", "IncrementLoopIteration", "CreateForInIterator", "GetIterator",
    "GetAsyncIterator", "IteratorPop", "IteratorPush", "IteratorNext", "IteratorUpdateResult", "IteratorDone", "IteratorFinishAsyncNext", "IteratorValue", "IteratorResult", "IteratorToArray", "IteratorStackEmpty", "CreateIteratorResult",
    "IteratorReturn", "ConcatToString", "ValueNotNullOrUndefined", "RestParameterInit", "GeneratorYield", "AsyncGeneratorYield", "CreatePromiseCapability", "Await", "NewTarget", "ImportMeta", "IsObject", "TemplateLookup", "TemplateCreate",
    "PushPrivateEnvironment", "PopPrivateEnvironment", "CreateMappedArgumentsObject", "CreateUnmappedArgumentsObject", "DefEvalVar",
];

/// instructions that never raise an exception (no exception edge leaves them)
fn cannot_throw(name: &str) -> bool {
    matches!(
        name,
        "Jump" | "Move" | "StoreZero" | "StoreOne" | "StoreInt8" | "StoreInt16" | "StoreInt32" | "StoreFloat" | "StoreDouble" | "StoreNan" | "StorePositiveInfinity" | "StoreNegativeInfinity" | "StoreNull" | "StoreTrue"
            | "StoreFalse" | "StoreUndefined" | "PopEnvironment" | "JumpIfTrue" | "JumpIfFalse" | "JumpIfNotUndefined" | "JumpIfNullOrUndefined" | "JumpTable" | "SetAccumulator" | "SetRegisterFromAccumulator" | "PushFromRegister"
            | "PopIntoRegister" | "Pop" | "IsObject" | "IteratorStackEmpty" | "Exception" | "MaybeException" | "LogicalNot" | "TypeOf" | "IteratorDone" | "IteratorValue" | "IteratorResult" | "IncrementLoopIteration" | "Return" | "PushScope" | "CheckReturn"
    )
}

fn is_terminal(name: &str) -> bool {
    matches!(name, "Return" | "Throw" | "ThrowNewTypeError" | "ThrowNewReferenceError" | "ThrowMutateImmutable" | "DeleteSuperThrow" | "ReThrow")
}

fn jump_targets(i: &InstrDump) -> Vec<u32> {
    let mut v = vec![];
    for (_, o) in &i.fields {
        match o {
            Operand::Addr(a) => v.push(*a),
            Operand::Addrs(a) => v.extend(a.iter().copied()),
            _ => {}
        }
    }
    v
}

pub fn verify(b: &BlockDump) -> Report {
    let mut rep = Report { instructions: b.instructions.len(), handlers: b.handlers.len(), ..Default::default() };
    let len = b.bytes.len() as u32;
    let mut push = |rep: &mut Report, kind: &str, pc: u32, detail: String| {
        if rep.violations.len() < 50 {
            rep.violations.push(Violation { kind: kind.to_string(), pc, detail });
        }
    };

    // 1. decoding
    if let Some(pc) = b.decode_error {
        push(&mut rep, "decode-error", pc, format!("instruction at {pc} runs past the end of the {len}-byte block"));
        return rep;
    }
    let mut expected = 0u32;
    for i in &b.instructions {
        if i.pc != expected {
            push(&mut rep, "decode-gap", i.pc, format!("instruction starts at {} but previous ended at {expected}", i.pc));
        }
        expected = i.next_pc;
    }
    if expected != len {
        push(&mut rep, "decode-length", expected, format!("linear sweep ends at {expected}, block length {len}"));
    }
    if b.instructions.is_empty() {
        push(&mut rep, "empty-block", 0, "no instructions".into());
        return rep;
    }
    if !matches!(b.instructions.last().map(|i| i.name), Some("Return" | "Throw" | "ReThrow" | "Jump" | "ThrowNewTypeError" | "ThrowNewReferenceError")) {
        push(&mut rep, "falls-off-end", len, format!("last instruction is {}", b.instructions.last().map_or("", |i| i.name)));
    }
    let index_of: HashMap<u32, usize> = b.instructions.iter().enumerate().map(|(k, i)| (i.pc, k)).collect();

    // 2. operands
    for i in &b.instructions {
        if i.name.starts_with("Reserved") {
            push(&mut rep, "reserved-opcode", i.pc, i.name.to_string());
            continue;
        }
        if !KNOWN_OPS.contains(&i.name) && !rep.unmodelled.iter().any(|u| u == i.name) {
            rep.unmodelled.push(i.name.to_string());
        }
        for (fname, op) in &i.fields {
            for r in operand_regs(op) {
                if r >= b.register_count {
                    push(&mut rep, "register-out-of-range", i.pc, format!("{} {fname}=r{r} register_count={}", i.name, b.register_count));
                }
            }
            let str_const = |rep: &mut Report, idx: u32, what: &str, allow_bigint: bool| {
                match b.constants.get(idx as usize) {
                    Some(ConstDump::String(_)) => {}
                    Some(ConstDump::BigInt) if allow_bigint => {}
                    Some(other) => {
                        if rep.violations.len() < 50 {
                            rep.violations.push(Violation { kind: "constant-wrong-kind".into(), pc: i.pc, detail: format!("{} {what}={idx} is {other:?}, expected string", i.name) });
                        }
                    }
                    None => {
                        if rep.violations.len() < 50 {
                            rep.violations.push(Violation { kind: "constant-out-of-range".into(), pc: i.pc, detail: format!("{} {what}={idx} constants={}", i.name, b.constants.len()) });
                        }
                    }
                }
            };
            match (*fname, op) {
                ("binding_index", Operand::Index(v)) => {
                    if *v as usize >= b.bindings.len() {
                        push(&mut rep, "binding-out-of-range", i.pc, format!("{} binding_index={v} bindings={}", i.name, b.bindings.len()));
                    }
                }
                ("ic_index", Operand::Index(v)) => {
                    if *v as usize >= b.ic_len {
                        push(&mut rep, "ic-out-of-range", i.pc, format!("{} ic_index={v} ic={}", i.name, b.ic_len));
                    }
                }
                ("name_index" | "message" | "pattern_index" | "flags_index", Operand::Index(v)) => str_const(&mut rep, *v, fname, false),
                ("index", Operand::Index(v)) => match i.name {
                    "StoreLiteral" => str_const(&mut rep, *v, "index", true),
                    "InPrivate" | "ThrowMutateImmutable" => str_const(&mut rep, *v, "index", false),
                    "GetFunction" => match b.constants.get(*v as usize) {
                        Some(ConstDump::Function(_)) => {}
                        other => push(&mut rep, "constant-wrong-kind", i.pc, format!("GetFunction index={v} is {other:?}, expected function")),
                    },
                    "ThisForObjectEnvironmentName" => {
                        if *v as usize >= b.bindings.len() {
                            push(&mut rep, "binding-out-of-range", i.pc, format!("{} index={v} bindings={}", i.name, b.bindings.len()));
                        }
                    }
                    _ => {}
                },
                ("scope_index", Operand::Index(v)) => match b.constants.get(*v as usize) {
                    Some(ConstDump::Scope { .. }) => {}
                    other => push(&mut rep, "constant-wrong-kind", i.pc, format!("{} scope_index={v} is {other:?}, expected scope", i.name)),
                },
                ("prefix", Operand::Index(v)) => {
                    if *v > 2 {
                        push(&mut rep, "flag-out-of-range", i.pc, format!("SetFunctionName prefix={v}"));
                    }
                }
                ("done" | "is_anonymous_function", Operand::Index(v)) => {
                    if *v > 1 {
                        push(&mut rep, "flag-out-of-range", i.pc, format!("{} {fname}={v}", i.name));
                    }
                }
                ("index", Operand::Int(v)) if i.name == "JumpTable" => {
                    if *v < 0 || *v as u32 >= b.register_count {
                        push(&mut rep, "register-out-of-range", i.pc, format!("JumpTable index=r{v} register_count={}", b.register_count));
                    }
                }
                ("values", Operand::U32s(vs)) if i.name == "TemplateCreate" => {
                    for r in vs {
                        if *r >= b.register_count {
                            push(&mut rep, "register-out-of-range", i.pc, format!("TemplateCreate values r{r} register_count={}", b.register_count));
                        }
                    }
                }
                ("name_indices", Operand::U32s(vs)) => {
                    for v in vs {
                        str_const(&mut rep, *v, "name_indices", false);
                    }
                }
                _ => {}
            }
        }
        // 3. targets
        for t in jump_targets(i) {
            if !index_of.contains_key(&t) {
                push(&mut rep, "jump-target-not-instruction", i.pc, format!("{} -> {t} (block length {len})", i.name));
            }
        }
        if !jump_targets(i).is_empty() && i.name != "Jump" {
            rep.branches += 1;
        }
    }
    for (k, (s, e, _)) in b.handlers.iter().enumerate() {
        if !index_of.contains_key(s) && *s != len {
            push(&mut rep, "handler-start-not-instruction", *s, format!("handler {k} start {s}"));
        }
        if !index_of.contains_key(e) {
            push(&mut rep, "handler-target-not-instruction", *e, format!("handler {k} landing pad {e} (block length {len})"));
        }
        if s > e {
            push(&mut rep, "handler-range-inverted", *s, format!("handler {k} start {s} > end {e}"));
        }
    }
    if !rep.violations.is_empty() {
        return rep; // depth analysis needs a structurally sound block
    }

    // 4. depths on all paths.
    // The finally machinery is path-correlated: a `return` inside try/finally pushes its value,
    // stores a jump-table index in a register and jumps to the finally block, whose trailing
    // JumpTable dispatches on that register to code that pops the value again. A plain
    // "depths agree at merges" analysis would reject this by design, so the abstract state also
    // carries the constant values of the registers used as JumpTable index / re-throw flags; two
    // states at one pc may differ in depth only if they differ in those constants.
    let n = b.instructions.len();
    let mut tracked: Vec<u32> = vec![];
    for i in &b.instructions {
        let reg_of = |f: &str| i.fields.iter().find(|(n, _)| *n == f).and_then(|(_, o)| match o { Operand::Reg(r) => Some(*r), Operand::Int(v) => u32::try_from(*v).ok(), _ => None });
        let r = match i.name {
            "JumpTable" => reg_of("index"),
            "JumpIfFalse" | "JumpIfTrue" => reg_of("value"),
            _ => None,
        };
        if let Some(r) = r {
            if !tracked.contains(&r) && tracked.len() < 24 {
                tracked.push(r);
            }
        }
    }
    // keep a register only if it is a dedicated flag: at least one constant store targets it and
    // NO other instruction writes it (general temporaries are not tracked)
    let is_const_store = |i: &InstrDump| matches!(i.name, "StoreTrue" | "StoreFalse" | "StoreZero" | "StoreOne" | "StoreInt8" | "StoreInt16" | "StoreInt32");
    let writes = |i: &InstrDump, r: u32| -> bool {
        i.fields.iter().any(|(fname, op)| {
            operand_regs(op).contains(&r)
                && (*fname == "dst" || matches!(*fname, "has_exception" | "exception" | "resume_kind" | "key" | "result" | "called") || (*fname == "value" && matches!(i.name, "BitNot" | "TypeOf" | "LogicalNot" | "Pos" | "Neg" | "IsObject" | "IteratorFinishAsyncNext" | "IteratorReturn")))
        })
    };
    tracked.retain(|r| b.instructions.iter().any(|i| is_const_store(i) && writes(i, *r)));
    // landing pads of the compiler's internal iterator-close handlers: Exception/MaybeException,
    // IteratorReturn, result check, re-throw. They never touch environments, and break/return
    // paths inside their range legitimately run with fewer environments than environment_count.
    let is_iter_close_pad = |pc: u32| -> bool {
        let Some(&k0) = index_of.get(&pc) else { return false };
        let mut saw_return = false;
        for i in b.instructions.iter().skip(k0).take(12) {
            match i.name {
                "Exception" | "MaybeException" | "JumpIfFalse" | "JumpIfTrue" | "IsObject" | "ThrowNewTypeError" => {}
                "IteratorReturn" => saw_return = true,
                "Throw" | "ReThrow" => return saw_return,
                _ => return false,
            }
        }
        false
    };
    #[derive(Clone, PartialEq, Eq, Debug)]
    struct St {
        d: Depths,
        c: Vec<Option<i64>>,
    }
    let base_env = if b.parent.is_none() && b.origin == "eval" {
        1
    } else if b.parent.is_some() || b.origin == "function-constructor" {
        i32::from(b.flags & 0b10 != 0) + i32::from(b.has_function_scope)
    } else {
        0
    };
    // Blocks with a finally dispatch (JumpTable) keep a pending return value on the value stack
    // while other paths through the same finally code do not; the pairing is dynamic (the
    // jump-table index). The constant tracking above resolves most of it, but register recycling
    // makes it imprecise, so in such blocks the value-stack dimension is analysed per path
    // (states with different stack depth may coexist) and only environment / binding / private
    // environment depths are required to agree at merges.
    let stack_strict = !b.instructions.iter().any(|i| i.name == "JumpTable");
    let mut states: Vec<Vec<St>> = vec![vec![]; n];
    let init = St { d: Depths { env: base_env, bind: 0, stack: 0, private_env: 0 }, c: vec![None; tracked.len()] };
    states[0].push(init.clone());
    let mut work: Vec<(usize, St)> = vec![(0, init)];
    let handler_for = |pc: u32| -> Option<usize> { b.handlers.iter().enumerate().rev().find(|(_, (s, e, _))| pc >= *s && pc < *e).map(|(k, _)| k) };
    let mut too_complex = false;
    let mut add = |rep: &mut Report, states: &mut Vec<Vec<St>>, work: &mut Vec<(usize, St)>, to: usize, st: St, from_pc: u32, via: &str, too_complex: &mut bool| {
        if states[to].contains(&st) {
            return;
        }
        if let Some(old) = states[to].iter().find(|o| o.c == st.c && o.d != st.d && (stack_strict || (o.d.env, o.d.bind, o.d.private_env) != (st.d.env, st.d.bind, st.d.private_env))) {
            let (od, d) = (old.d, st.d);
            let which = if od.env != d.env { "environment" } else if od.bind != d.bind { "binding" } else if od.stack != d.stack { "stack" } else { "private-environment" };
            let prev = &b.instructions[index_of[&from_pc]];
            if rep.violations.len() < 50 && !rep.violations.iter().any(|v| v.pc == b.instructions[to].pc && v.kind.starts_with("depth-mismatch")) {
                rep.violations.push(Violation { kind: format!("depth-mismatch-at-merge:{which}"), pc: b.instructions[to].pc, detail: format!("at {} ({}) reached via {via} from {from_pc} ({}): {od:?} vs {d:?} (tracked flag registers {:?} = {:?})", b.instructions[to].pc, b.instructions[to].name, prev.name, tracked, st.c) });
            }
            return;
        }
        if states[to].len() >= 96 {
            *too_complex = true;
            return;
        }
        states[to].push(st.clone());
        work.push((to, st));
    };
    let mut guard = 0u64;
    // handler-start depths: the first state recorded at the handler's start instruction
    while let Some((k, st)) = work.pop() {
        guard += 1;
        if guard > 3_000_000 {
            too_complex = true;
            break;
        }
        let i = &b.instructions[k];
        let d = st.d;
        // exception edge
        if let Some(h) = handler_for(i.pc).filter(|_| !cannot_throw(i.name)) {
            let (hs, he, hcount) = b.handlers[h];
            let iter_pad = is_iter_close_pad(he);
            if (hcount as i32) > d.env && !iter_pad {
                push(&mut rep, "handler-environment-count", i.pc, format!("handler {h} [{hs},{he}) expects {hcount} environments but protected instruction {} at {} has only {}", i.name, i.pc, d.env));
            }
            // depths the landing pad assumes: those at the handler start on the same flag values if
            // known, else any recorded state of the start instruction
            let start_states = index_of.get(&hs).map(|s| &states[*s]);
            // registers are recycled, so match the start state by compatibility of the flag constants
            // (equal wherever both are known), preferring the most specific match
            let sd = start_states
                .and_then(|v| {
                    let compat: Vec<&St> = v.iter().filter(|o| o.c.iter().zip(st.c.iter()).all(|(a, b)| a.is_none() || b.is_none() || a == b)).collect();
                    // the landing pad cannot assume deeper stacks than the throwing instruction has
                    let below: Vec<&St> = compat.iter().copied().filter(|o| o.d.stack <= d.stack && o.d.bind <= d.bind).collect();
                    let pool = if below.is_empty() { compat } else { below };
                    pool.into_iter()
                        .max_by_key(|o| (o.c.iter().zip(st.c.iter()).filter(|(a, b)| a.is_some() && a == b).count(), o.d.stack, o.d.bind))
                        .or_else(|| v.first())
                })
                .map(|o| o.d);
            match sd {
                Some(sd) => {
                    if (stack_strict && d.stack < sd.stack) || d.bind < sd.bind {
                        push(&mut rep, "protected-depth-below-handler-start", i.pc, format!("handler {h}: start depths {sd:?}, protected instruction {} at {} has {d:?}", i.name, i.pc));
                    }
                    let (_, db, ds, _) = effect(i).unwrap_or((0, 0, 0, 0));
                    let max_stack = d.stack.max(d.stack + ds);
                    let max_bind = d.bind.max(d.bind + db);
                    if (max_stack > sd.stack || max_bind > sd.bind) && rep.handler_leftovers.len() < 20 {
                        let which = if max_stack > sd.stack { "stack" } else { "binding" };
                        if !rep.handler_leftovers.iter().any(|v| v.pc == he && v.kind.ends_with(which)) {
                            rep.handler_leftovers.push(Violation { kind: format!("handler-leftover:{which}"), pc: he, detail: format!("handler {h} landing pad {he}: {which} depth at handler start {} but up to {} when {} at {} throws", if which == "stack" { sd.stack } else { sd.bind }, if which == "stack" { max_stack } else { max_bind }, i.name, i.pc) });
                        }
                    }
                    let landing = St { d: Depths { env: hcount as i32, bind: sd.bind, stack: sd.stack, private_env: sd.private_env }, c: st.c.clone() };
                    add(&mut rep, &mut states, &mut work, index_of[&he], landing, i.pc, "exception edge", &mut too_complex);
                }
                None => {
                    // handler start not reached yet (it precedes every protected instruction on
                    // any path, so this only happens for unreachable starts): assume zero depths
                    let landing = St { d: Depths { env: hcount as i32, bind: 0, stack: 0, private_env: d.private_env }, c: st.c.clone() };
                    add(&mut rep, &mut states, &mut work, index_of[&he], landing, i.pc, "exception edge", &mut too_complex);
                }
            }
        }
        let Some((de, db, ds, dp)) = effect(i) else { continue };
        let out_d = Depths { env: d.env + de, bind: d.bind + db, stack: d.stack + ds, private_env: d.private_env + dp };
        if !stack_strict && out_d.stack < 0 && out_d.env >= 0 && out_d.bind >= 0 && out_d.private_env >= 0 {
            continue; // an infeasible path of the per-path stack analysis
        }
        if out_d.env < 0 || out_d.bind < 0 || out_d.stack < 0 || out_d.private_env < 0 {
            let which = if out_d.env < 0 { "environment" } else if out_d.bind < 0 { "binding" } else if out_d.stack < 0 { "stack" } else { "private-environment" };
            push(&mut rep, &format!("negative-depth:{which}"), i.pc, format!("{} at {} takes depths {d:?} to {out_d:?}", i.name, i.pc));
            continue;
        }
        if i.name == "Return" && d.bind != 0 {
            push(&mut rep, "return-with-pending-binding-reference", i.pc, format!("Return at {} with binding depth {}", i.pc, d.bind));
        }
        // constants of tracked registers
        let mut c = st.c.clone();
        for (fname, op) in &i.fields {
            let regs = operand_regs(op);
            for r in regs {
                if let Some(ti) = tracked.iter().position(|t| *t == r) {
                    let is_write = *fname == "dst" || matches!(*fname, "has_exception" | "exception" | "resume_kind" | "key" | "result") || (*fname == "value" && matches!(i.name, "BitNot" | "TypeOf" | "LogicalNot" | "Pos" | "Neg" | "IsObject" | "IteratorFinishAsyncNext"));
                    if is_write {
                        let imm = || i.fields.iter().find(|(n, _)| *n == "value").and_then(|(_, o)| if let Operand::Int(v) = o { Some(*v) } else { None });
                        c[ti] = match i.name {
                            "StoreTrue" | "StoreOne" => Some(1),
                            "StoreFalse" | "StoreZero" => Some(0),
                            "StoreInt8" | "StoreInt16" | "StoreInt32" => imm(),
                            _ => None,
                        };
                    }
                }
            }
        }
        let out = St { d: out_d, c };
        let const_of = |fname: &str| -> Option<Option<i64>> {
            let r = i.fields.iter().find(|(n, _)| *n == fname).and_then(|(_, o)| match o { Operand::Reg(r) => Some(*r), Operand::Int(v) => u32::try_from(*v).ok(), _ => None })?;
            tracked.iter().position(|t| *t == r).map(|ti| out.c[ti])
        };
        match i.name {
            "JumpTable" => {
                let addrs = jump_targets(i);
                match const_of("index").flatten() {
                    Some(kv) => {
                        if kv >= 0 && (kv as usize) < addrs.len() {
                            add(&mut rep, &mut states, &mut work, index_of[&addrs[kv as usize]], out.clone(), i.pc, "jump table", &mut too_complex);
                        } else if k + 1 < n {
                            add(&mut rep, &mut states, &mut work, k + 1, out.clone(), i.pc, "fall-through", &mut too_complex);
                        }
                    }
                    None => {
                        for t in addrs {
                            add(&mut rep, &mut states, &mut work, index_of[&t], out.clone(), i.pc, "jump table", &mut too_complex);
                        }
                        if k + 1 < n {
                            add(&mut rep, &mut states, &mut work, k + 1, out.clone(), i.pc, "fall-through", &mut too_complex);
                        }
                    }
                }
            }
            "JumpIfFalse" | "JumpIfTrue" => {
                let known = const_of("value").flatten();
                let jumps_when_true = i.name == "JumpIfTrue";
                let (take_jump, take_fall) = match known {
                    Some(v) => {
                        let truthy = v != 0;
                        (truthy == jumps_when_true, truthy != jumps_when_true)
                    }
                    None => (true, true),
                };
                if take_fall && k + 1 < n {
                    add(&mut rep, &mut states, &mut work, k + 1, out.clone(), i.pc, "fall-through", &mut too_complex);
                }
                if take_jump {
                    for t in jump_targets(i) {
                        add(&mut rep, &mut states, &mut work, index_of[&t], out.clone(), i.pc, "jump", &mut too_complex);
                    }
                }
            }
            _ => {
                if i.name != "Jump" && !is_terminal(i.name) && k + 1 < n {
                    add(&mut rep, &mut states, &mut work, k + 1, out.clone(), i.pc, "fall-through", &mut too_complex);
                }
                if i.name != "Return" {
                    // known finding F5: `x ||= y` on a non-lexical binding emits GetNameAndLocator r ;
                    // LogicalOr/And/Coalesce A, r ; ... ; SetNameByLocator — the short-circuit edge to A
                    // skips the SetNameByLocator and leaves the locator pushed.
                    let f5_edge = matches!(i.name, "LogicalAnd" | "LogicalOr" | "Coalesce")
                        && k > 0
                        && b.instructions[k - 1].name == "GetNameAndLocator"
                        && b.instructions[k - 1].fields.iter().any(|(n, o)| *n == "dst" && i.fields.iter().any(|(n2, o2)| *n2 == "value" && o2 == o));
                    for t in jump_targets(i) {
                        let mut o2 = out.clone();
                        if f5_edge {
                            o2.d.bind -= 1;
                            if !rep.handler_leftovers.iter().any(|v| v.kind == "known-f5-locator-left-on-short-circuit") {
                                rep.handler_leftovers.push(Violation { kind: "known-f5-locator-left-on-short-circuit".into(), pc: i.pc, detail: format!("{} at {} jumps over the SetNameByLocator that pops the locator pushed at {}", i.name, i.pc, b.instructions[k - 1].pc) });
                            }
                        }
                        add(&mut rep, &mut states, &mut work, index_of[&t], o2, i.pc, "jump", &mut too_complex);
                    }
                }
            }
        }
    }
    if too_complex {
        rep.unmodelled.push("state-space-too-large".into());
    }
    rep
}

/// short opcode context around a pc (for signatures / details)
pub fn context_at(b: &BlockDump, pc: u32, before: usize, after: usize) -> String {
    let Some(k) = b.instructions.iter().position(|i| i.pc == pc) else { return String::new() };
    let lo = k.saturating_sub(before);
    let hi = (k + after + 1).min(b.instructions.len());
    b.instructions[lo..hi].iter().map(|i| format!("{}{}:{}", if i.pc == pc { ">" } else { "" }, i.pc, i.name)).collect::<Vec<_>>().join(" ")
}

pub fn disassemble(b: &BlockDump) -> String {
    let mut s = format!("block {} '{}' registers={} constants={} bindings={} ic={} handlers={:?}\n", b.debug_id, b.name, b.register_count, b.constants.len(), b.bindings.len(), b.ic_len, b.handlers);
    for i in &b.instructions {
        s.push_str(&format!("{:5} {} {:?}\n", i.pc, i.name, i.fields));
    }
    s
}
