pub mod driver;
pub mod genp;
pub mod oracle;
pub mod props;
pub mod rng;
pub mod run;
pub mod tape;
pub mod verify_bc;
