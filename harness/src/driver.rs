//! Driver: batches of generated cases are dispatched to worker *processes* (so that an abort
//! or a hang is attributed to one input and does not take the check down), results are merged,
//! failures are shrunk, replay files and the evidence file are written.

use crate::oracle::{Server, verif_root};
use crate::rng::{Rng, hash_bytes};
use crate::tape::shrink_tape;
use serde_json::{Value, json};
use std::collections::{BTreeMap, HashSet, VecDeque};
use std::io::{BufRead, BufReader, Write};
use std::process::{Command, Stdio};
use std::sync::{Arc, Mutex};
use std::time::Instant;

#[derive(Clone, Copy, Debug, PartialEq, Eq)]
pub enum Tier {
    Quick,
    Thorough,
}
impl Tier {
    pub fn name(self) -> &'static str {
        match self {
            Tier::Quick => "quick",
            Tier::Thorough => "thorough",
        }
    }
}

#[derive(Clone, Debug)]
pub struct Stream {
    pub name: &'static str,
    pub cases: u64,
    pub tape_len: usize,
    /// cases per batch handed to a worker
    pub batch: u64,
    /// the stream enumerates a finite space completely (case index is the enumeration index)
    pub exhaustive: bool,
}

impl Stream {
    pub fn new(name: &'static str, cases: u64, tape_len: usize) -> Self {
        Self { name, cases, tape_len, batch: 200, exhaustive: false }
    }
    pub fn batch(mut self, b: u64) -> Self {
        self.batch = b;
        self
    }
    pub fn exhaustive(mut self) -> Self {
        self.exhaustive = true;
        self
    }
}

#[derive(Clone, Debug)]
pub enum Verdict {
    Pass,
    Fail { sig: String, detail: String },
    /// not counted as evidence either way (excluded construct, oracle unavailable for the case, limit hit)
    Skip(String),
}

#[derive(Clone, Debug)]
pub struct CaseOut {
    pub verdict: Verdict,
    /// true if the case is non-trivial by the property's stated rule
    pub nontrivial: bool,
    pub labels: Vec<&'static str>,
    /// the rendered input (JS text, op list, bit pattern, ...)
    pub rendered: String,
}

impl CaseOut {
    pub fn pass(rendered: String, nontrivial: bool) -> Self {
        Self { verdict: Verdict::Pass, nontrivial, labels: vec![], rendered }
    }
    pub fn fail(rendered: String, sig: impl Into<String>, detail: impl Into<String>) -> Self {
        Self { verdict: Verdict::Fail { sig: sig.into(), detail: detail.into() }, nontrivial: true, labels: vec![], rendered }
    }
    pub fn skip(rendered: String, why: impl Into<String>) -> Self {
        Self { verdict: Verdict::Skip(why.into()), nontrivial: false, labels: vec![], rendered }
    }
    pub fn with_labels(mut self, l: Vec<&'static str>) -> Self {
        self.labels = l;
        self
    }
}

/// Per-worker environment: lazily started oracle servers.
pub struct Env {
    node: Option<Server>,
    python: Option<Server>,
    py_scripts: std::collections::HashMap<String, Server>,
    pub tier: Tier,
    pub seed: u64,
    /// strict replay mode: known-finding tolerance is off
    pub replay: bool,
}

impl Env {
    pub fn new(tier: Tier, seed: u64) -> Self {
        Self { node: None, python: None, py_scripts: Default::default(), tier, seed, replay: false }
    }
    pub fn node(&mut self) -> Result<&mut Server, String> {
        if self.node.is_none() {
            self.node = Some(Server::node().map_err(|e| format!("cannot start node: {e}"))?);
        }
        Ok(self.node.as_mut().unwrap())
    }
    /// A persistent python3 server running /verif/oracle/<script> (JSON lines).
    pub fn py(&mut self, script: &str) -> Result<&mut Server, String> {
        if !self.py_scripts.contains_key(script) {
            let s = Server::python_script(script).map_err(|e| format!("cannot start python3 {script}: {e}"))?;
            self.py_scripts.insert(script.to_string(), s);
        }
        Ok(self.py_scripts.get_mut(script).unwrap())
    }
    pub fn python(&mut self) -> Result<&mut Server, String> {
        if self.python.is_none() {
            self.python = Some(Server::python().map_err(|e| format!("cannot start python3: {e}"))?);
        }
        Ok(self.python.as_mut().unwrap())
    }
}

pub trait Prop: Sync {
    fn id(&self) -> &'static str;
    fn streams(&self, tier: Tier) -> Vec<Stream>;
    /// How cases are generated and what makes one non-trivial.
    fn rule(&self) -> String;
    fn assumptions(&self) -> Vec<String> {
        vec![]
    }
    /// Run one generated case.
    fn run_case(&self, env: &mut Env, stream: &str, index: u64, tape: &[u8]) -> CaseOut;
    /// Re-check the property directly on a rendered input (replay files / known findings written
    /// by hand). `None` when the stream has no rendered-input form.
    fn run_rendered(&self, _env: &mut Env, _stream: &str, _rendered: &str) -> Option<CaseOut> {
        None
    }
    /// number of leading lines of a rendered input the line-level shrinker must keep (prelude)
    fn rendered_prefix_lines(&self, rendered: &str) -> usize {
        let n = crate::genp::prog::PRELUDE.lines().count();
        if rendered.contains(crate::genp::prog::PRELUDE) { n + usize::from(rendered.starts_with("'use strict'")) } else { 0 }
    }
}

pub fn tape_for(seed: u64, prop: &str, stream: &str, index: u64, len: usize) -> Vec<u8> {
    let mut rng = Rng::new(seed, &format!("{prop}/{stream}"), index);
    // vary tape length: short tapes give small cases (many small cases beat few large ones)
    let l = match rng.below(4) {
        0 => len / 4,
        1 => len / 2,
        _ => len,
    };
    rng.bytes(l.max(8))
}

pub fn hex(b: &[u8]) -> String {
    let mut s = String::with_capacity(b.len() * 2);
    for x in b {
        s.push_str(&format!("{x:02x}"));
    }
    s
}
pub fn unhex(s: &str) -> Vec<u8> {
    (0..s.len() / 2).filter_map(|i| u8::from_str_radix(&s[2 * i..2 * i + 2], 16).ok()).collect()
}

// ---------------------------------------------------------------------------------------
// known findings

#[derive(Clone, Debug)]
pub struct Known {
    pub id: String,
    pub property: String,
    pub status: String, // open | fixed
    /// substring that must occur in the failure signature
    pub signature: String,
    pub what: String,
    pub stream: String,
    /// rendered input of the reproducer
    pub repro: String,
    pub commit: Option<String>,
}

pub fn load_known() -> Vec<Known> {
    let mut paths = vec![format!("{}/KNOWN_FINDINGS.json", verif_root())];
    if let Ok(rd) = std::fs::read_dir(format!("{}/known.d", verif_root())) {
        let mut extra: Vec<String> = rd.filter_map(|e| e.ok()).map(|e| e.path().to_string_lossy().to_string()).filter(|p| p.ends_with(".json")).collect();
        extra.sort();
        paths.extend(extra);
    }
    let mut out = vec![];
    for path in paths {
        let Ok(text) = std::fs::read_to_string(&path) else { continue };
        let Ok(v) = serde_json::from_str::<Value>(&text) else {
            eprintln!("warning: {path} does not parse");
            continue;
        };
        load_known_from(&v, &mut out);
    }
    out
}

fn load_known_from(v: &Value, out: &mut Vec<Known>) {
    {
    for e in v["findings"].as_array().cloned().unwrap_or_default() {
        let g = |k: &str| e[k].as_str().unwrap_or("").to_string();
        out.push(Known {
            id: g("id"),
            property: g("property"),
            status: g("status"),
            signature: g("signature"),
            what: g("what"),
            stream: g("stream"),
            repro: g("repro"),
            commit: e["commit"].as_str().map(str::to_string),
        });
    }
    }
}

pub fn match_known<'a>(known: &'a [Known], prop: &str, sig: &str) -> Option<&'a Known> {
    known
        .iter()
        // a signature starting with '=' identifies the finding only when its own reproducer is replayed
        // (differential checks: the failure signature does not identify the root cause)
        .find(|k| k.property == prop && k.status == "open" && !k.signature.is_empty() && !k.signature.starts_with('=') && sig.contains(&k.signature))
}

// ---------------------------------------------------------------------------------------
// worker side

#[derive(Default)]
struct BatchAgg {
    evals: u64,
    pass: u64,
    nontrivial: Vec<u64>,
    labels: BTreeMap<String, u64>,
    skips: BTreeMap<String, u64>,
    known: BTreeMap<String, u64>,
    failures: Vec<Value>,
    samples: Vec<String>,
}

fn journal_path(dir: &str, wid: usize) -> String {
    format!("{dir}/w{wid}.journal")
}

/// Worker main loop: read `stream start end` lines, answer with one JSON line per batch.
pub fn worker_main(prop: &dyn Prop, tier: Tier, seed: u64, dir: &str, wid: usize) {
    crate::run::install_panic_hook();
    let known = load_known();
    let streams = prop.streams(tier);
    let mut env = Env::new(tier, seed);
    let mut shrunk_sigs: HashSet<String> = HashSet::new();
    let current = Arc::new(Mutex::new((Instant::now(), false)));
    // watchdog: abort the process if one case runs too long
    {
        let current = current.clone();
        let limit = std::env::var("BV_CASE_TIMEOUT").ok().and_then(|s| s.parse().ok()).unwrap_or(60u64);
        std::thread::spawn(move || loop {
            std::thread::sleep(std::time::Duration::from_millis(500));
            let (t, active) = *current.lock().unwrap();
            if active && t.elapsed().as_secs() >= limit {
                std::process::exit(97);
            }
        });
    }
    let jpath = journal_path(dir, wid);
    let stdin = std::io::stdin();
    let stdout = std::io::stdout();
    for line in stdin.lock().lines() {
        let Ok(line) = line else { break };
        let parts: Vec<&str> = line.split_whitespace().collect();
        if parts.len() != 3 {
            continue;
        }
        let sname = parts[0];
        let start: u64 = parts[1].parse().unwrap_or(0);
        let end: u64 = parts[2].parse().unwrap_or(0);
        let Some(stream) = streams.iter().find(|s| s.name == sname) else { continue };
        let mut agg = BatchAgg::default();
        for index in start..end {
            let _ = std::fs::write(&jpath, format!("{sname} {index}"));
            *current.lock().unwrap() = (Instant::now(), true);
            let tape = tape_for(seed, prop.id(), sname, index, stream.tape_len);
            let out = prop.run_case(&mut env, sname, index, &tape);
            *current.lock().unwrap() = (Instant::now(), false);
            agg.evals += 1;
            for l in &out.labels {
                *agg.labels.entry((*l).to_string()).or_default() += 1;
            }
            match &out.verdict {
                Verdict::Pass => {
                    agg.pass += 1;
                    if out.nontrivial {
                        agg.nontrivial.push(hash_bytes(out.rendered.as_bytes()));
                        if agg.samples.len() < 2 && index % 7 == 0 {
                            agg.samples.push(out.rendered.clone());
                        }
                    }
                }
                Verdict::Skip(why) => {
                    *agg.skips.entry(why.clone()).or_default() += 1;
                }
                Verdict::Fail { sig, detail } => {
                    if let Some(k) = match_known(&known, prop.id(), sig) {
                        *agg.known.entry(k.id.clone()).or_default() += 1;
                        continue;
                    }
                    // shrink (first few failures of the batch only)
                    let mut best_tape = tape.clone();
                    let mut best = (out.rendered.clone(), sig.clone(), detail.clone());
                    if !shrunk_sigs.contains(sig) && shrunk_sigs.len() < 6 {
                        shrunk_sigs.insert(sig.clone());
                        let sig0 = sig.clone();
                        let mut pred = |t: &[u8]| -> bool {
                            *current.lock().unwrap() = (Instant::now(), true);
                            let o = prop.run_case(&mut env, sname, index, t);
                            matches!(&o.verdict, Verdict::Fail { sig, .. } if *sig == sig0)
                        };
                        let shrunk = shrink_tape(&tape, 250, &mut pred);
                        let o = prop.run_case(&mut env, sname, index, &shrunk);
                        *current.lock().unwrap() = (Instant::now(), false);
                        if let Verdict::Fail { sig, detail } = &o.verdict {
                            best_tape = shrunk;
                            best = (o.rendered.clone(), sig.clone(), detail.clone());
                        }
                        // second stage: line-level reduction of the rendered input
                        if prop.run_rendered(&mut env, sname, "").is_some() {
                            let prefix = prop.rendered_prefix_lines(&best.0);
                            let mut pred2 = |text: &str| -> bool {
                                *current.lock().unwrap() = (Instant::now(), true);
                                matches!(prop.run_rendered(&mut env, sname, text).map(|o| o.verdict), Some(Verdict::Fail { sig, .. }) if sig == sig0)
                            };
                            let reduced = crate::tape::shrink_lines(&best.0, prefix, 600, &mut pred2);
                            if let Some(o) = prop.run_rendered(&mut env, sname, &reduced) {
                                if let Verdict::Fail { sig, detail } = &o.verdict {
                                    best = (reduced, sig.clone(), detail.clone());
                                }
                            }
                            *current.lock().unwrap() = (Instant::now(), false);
                        }
                    }
                    if agg.failures.len() < 20 {
                        agg.failures.push(json!({
                            "stream": sname, "index": index, "tape": hex(&best_tape),
                            "rendered": best.0, "sig": best.1, "detail": best.2,
                        }));
                    }
                }
            }
        }
        let _ = std::fs::write(&jpath, "");
        let resp = json!({
            "stream": sname, "start": start, "end": end,
            "evals": agg.evals, "pass": agg.pass, "nontrivial": agg.nontrivial,
            "labels": agg.labels, "skips": agg.skips, "known": agg.known,
            "failures": agg.failures, "samples": agg.samples,
        });
        let mut so = stdout.lock();
        let _ = writeln!(so, "{resp}");
        let _ = so.flush();
    }
}

// ---------------------------------------------------------------------------------------
// parent side

#[derive(Default)]
pub struct Agg {
    pub evals: u64,
    pub pass: u64,
    pub nontrivial: HashSet<u64>,
    pub labels: BTreeMap<String, u64>,
    pub skips: BTreeMap<String, u64>,
    pub known: BTreeMap<String, u64>,
    pub failures: Vec<Value>,
    pub samples: Vec<String>,
    pub timeouts: u64,
    pub aborts: u64,
    pub per_stream: BTreeMap<String, u64>,
    pub infra_errors: Vec<String>,
    pub timeout_cases: Vec<String>,
}

fn merge(agg: &mut Agg, v: &Value) {
    agg.evals += v["evals"].as_u64().unwrap_or(0);
    agg.pass += v["pass"].as_u64().unwrap_or(0);
    *agg.per_stream.entry(v["stream"].as_str().unwrap_or("").to_string()).or_default() += v["evals"].as_u64().unwrap_or(0);
    for h in v["nontrivial"].as_array().into_iter().flatten() {
        if let Some(h) = h.as_u64() {
            agg.nontrivial.insert(h);
        }
    }
    for (k, field) in [("labels", 0), ("skips", 1), ("known", 2)] {
        if let Some(m) = v[k].as_object() {
            for (name, n) in m {
                let tgt = match field {
                    0 => &mut agg.labels,
                    1 => &mut agg.skips,
                    _ => &mut agg.known,
                };
                *tgt.entry(name.clone()).or_default() += n.as_u64().unwrap_or(0);
            }
        }
    }
    for f in v["failures"].as_array().into_iter().flatten() {
        if agg.failures.len() < 200 {
            agg.failures.push(f.clone());
        }
    }
    for s in v["samples"].as_array().into_iter().flatten() {
        if agg.samples.len() < 8 {
            if let Some(s) = s.as_str() {
                agg.samples.push(s.chars().take(3000).collect());
            }
        }
    }
}

pub struct CheckResult {
    pub exit: i32,
}

pub fn seed_from_env() -> u64 {
    std::env::var("VERIF_SEED").ok().and_then(|s| s.trim().parse::<i64>().ok()).map(|x| x as u64).unwrap_or(1)
}

fn work_dir(prop: &str) -> String {
    let d = format!("{}/harness/target/work/{}-{}", verif_root(), prop, std::process::id());
    let _ = std::fs::create_dir_all(&d);
    d
}

/// Run the full check for a property: known-finding replays, generated cases, evidence.
pub fn run_check(prop: &dyn Prop, tier: Tier, extra: impl FnOnce(&mut Agg, &mut Env)) -> i32 {
    let t0 = Instant::now();
    let seed = seed_from_env();
    let id = prop.id();
    let known = load_known();
    let mut agg = Agg::default();
    let mut violations: Vec<Value> = vec![];
    let mut known_lines: Vec<String> = vec![];
    let mut env = Env::new(tier, seed);
    env.replay = true;

    // 1. replay known findings and fixed regressions in-process
    for k in known.iter().filter(|k| k.property == id) {
        if k.repro.is_empty() {
            continue;
        }
        let out = if k.signature.starts_with("abort:") {
            // the reproducer kills the process: replay it in a subprocess
            let exe = std::env::current_exe().expect("current exe");
            let st = Command::new(&exe).args(["known1", id, &k.id]).stdout(Stdio::null()).stderr(Stdio::null()).status();
            use std::os::unix::process::ExitStatusExt;
            match st {
                Ok(s) if s.signal().is_some() => CaseOut::fail(k.repro.clone(), format!("abort:signal {} [{}]", s.signal().unwrap_or(0), k.id), "process died"),
                Ok(_) => CaseOut::pass(k.repro.clone(), false),
                Err(e) => {
                    agg.infra_errors.push(format!("cannot replay known finding {}: {e}", k.id));
                    continue;
                }
            }
        } else {
            let Some(out) = prop.run_rendered(&mut env, &k.stream, &k.repro) else {
                agg.infra_errors.push(format!("known finding {} has no rendered replay", k.id));
                continue;
            };
            out
        };
        agg.evals += 1;
        match (&out.verdict, k.status.as_str()) {
            (Verdict::Fail { sig, .. }, "open") => {
                if sig.contains(k.signature.trim_start_matches('=')) {
                    known_lines.push(format!("KNOWN-FINDING: property={id} {} [{}]", k.what, k.id));
                } else {
                    violations.push(json!({"stream": k.stream, "rendered": k.repro, "sig": sig, "detail": format!("known finding {} now fails with a different signature", k.id), "index": 0, "tape": ""}));
                }
            }
            (Verdict::Fail { sig, detail }, _) => {
                violations.push(json!({"stream": k.stream, "rendered": k.repro, "sig": sig, "detail": format!("regression of fixed finding {}: {detail}", k.id), "index": 0, "tape": ""}));
            }
            (_, "open") => {
                eprintln!("note: known finding {} no longer reproduces", k.id);
                *agg.labels.entry(format!("known-finding-no-longer-reproduces:{}", k.id)).or_default() += 1;
            }
            _ => {
                agg.pass += 1;
            }
        }
    }
    extra(&mut agg, &mut env);
    drop(env);

    // replay files of earlier runs are run outputs: start clean
    let _ = std::fs::remove_dir_all(format!("{}/replays/{}", verif_root(), id));

    // 2. generated cases, in worker processes
    let streams = prop.streams(tier);
    let mut queue: VecDeque<(String, u64, u64)> = VecDeque::new();
    for s in &streams {
        let mut a = 0;
        while a < s.cases {
            let b = (a + s.batch).min(s.cases);
            queue.push_back((s.name.to_string(), a, b));
            a = b;
        }
    }
    let total_batches = queue.len();
    let queue = Arc::new(Mutex::new(queue));
    let shared = Arc::new(Mutex::new(agg));
    let dir = work_dir(id);
    let nworkers = std::env::var("BV_WORKERS").ok().and_then(|s| s.parse().ok()).unwrap_or_else(|| {
        std::thread::available_parallelism().map(|n| n.get()).unwrap_or(8)
    }).min(total_batches.max(1));
    let exe = std::env::current_exe().expect("current exe");
    let mut handles = vec![];
    for wid in 0..nworkers {
        let queue = queue.clone();
        let shared = shared.clone();
        let dir = dir.clone();
        let exe = exe.clone();
        let id = id.to_string();
        handles.push(std::thread::spawn(move || {
            let spawn = || {
                Command::new(&exe)
                    .args(["worker", &id, tier.name(), &seed.to_string(), &dir, &wid.to_string()])
                    .stdin(Stdio::piped())
                    .stdout(Stdio::piped())
                    .stderr(Stdio::inherit())
                    .spawn()
            };
            let mut child = match spawn() {
                Ok(c) => c,
                Err(e) => {
                    shared.lock().unwrap().infra_errors.push(format!("spawn worker: {e}"));
                    return;
                }
            };
            let mut cin = child.stdin.take().unwrap();
            let mut cout = BufReader::new(child.stdout.take().unwrap());
            let mut deaths = 0;
            loop {
                let job = queue.lock().unwrap().pop_front();
                let Some((sname, start, end)) = job else { break };
                let sent = writeln!(cin, "{sname} {start} {end}").is_ok() && cin.flush().is_ok();
                let mut line = String::new();
                let got = sent && matches!(cout.read_line(&mut line), Ok(n) if n > 0);
                if got {
                    match serde_json::from_str::<Value>(&line) {
                        Ok(v) => merge(&mut shared.lock().unwrap(), &v),
                        Err(e) => shared.lock().unwrap().infra_errors.push(format!("bad worker line: {e}")),
                    }
                    continue;
                }
                // worker died: attribute to the journaled case, requeue the rest
                let status = child.wait().ok();
                let journal = std::fs::read_to_string(journal_path(&dir, wid)).unwrap_or_default();
                let mut it = journal.split_whitespace();
                let js = it.next().unwrap_or("").to_string();
                let ji: Option<u64> = it.next().and_then(|x| x.parse().ok());
                let code = status.and_then(|s| s.code());
                {
                    let mut a = shared.lock().unwrap();
                    if let (true, Some(ji)) = (js == sname, ji) {
                        if code == Some(97) {
                            a.timeouts += 1;
                            *a.skips.entry("watchdog-timeout".into()).or_default() += 1;
                            if a.timeout_cases.len() < 20 {
                                a.timeout_cases.push(format!("{sname}:{ji}"));
                            }
                        } else {
                            a.aborts += 1;
                            use std::os::unix::process::ExitStatusExt;
                            let sigd = status.and_then(|s| s.signal()).map_or_else(|| format!("exit {code:?}"), |s| format!("signal {s}"));
                            a.failures.push(json!({"stream": sname, "index": ji, "tape": "", "rendered": "", "sig": format!("abort:{sigd}"), "detail": "worker process died while running this case", "abort": true}));
                        }
                        a.evals += 1;
                        // cases start..ji were run but their results are lost: re-run them
                        let mut q = queue.lock().unwrap();
                        if ji > start {
                            q.push_back((sname.clone(), start, ji));
                        }
                        if ji + 1 < end {
                            q.push_back((sname.clone(), ji + 1, end));
                        }
                    } else {
                        a.infra_errors.push(format!("worker {wid} died ({code:?}) outside a case; journal={journal:?}"));
                        queue.lock().unwrap().push_back((sname.clone(), start, end));
                    }
                }
                deaths += 1;
                if deaths > 50 {
                    shared.lock().unwrap().infra_errors.push("too many worker deaths".into());
                    break;
                }
                match spawn() {
                    Ok(c) => {
                        child = c;
                        cin = child.stdin.take().unwrap();
                        cout = BufReader::new(child.stdout.take().unwrap());
                    }
                    Err(e) => {
                        shared.lock().unwrap().infra_errors.push(format!("respawn worker: {e}"));
                        break;
                    }
                }
            }
            drop(cin);
            let _ = child.wait();
        }));
    }
    for h in handles {
        let _ = h.join();
    }
    let _ = std::fs::remove_dir_all(&dir);
    let mut agg = Arc::try_unwrap(shared).ok().expect("agg").into_inner().unwrap();

    // 3. failures: re-derive the tape for aborts, write replay files
    violations.extend(agg.failures.drain(..));
    let mut seen_sigs: HashSet<String> = HashSet::new();
    let mut out_lines = vec![];
    let replay_dir = format!("{}/replays/{}", verif_root(), id);
    for f in &mut violations {
        if f["abort"].as_bool() == Some(true) {
            // fill in tape and rendered for the replay file
            let sname = f["stream"].as_str().unwrap_or("").to_string();
            let index = f["index"].as_u64().unwrap_or(0);
            if let Some(s) = streams.iter().find(|s| s.name == sname) {
                let tape = tape_for(seed, id, &sname, index, s.tape_len);
                f["tape"] = json!(hex(&tape));
            }
        }
        let sig = f["sig"].as_str().unwrap_or("").to_string();
        if !seen_sigs.insert(sig.clone()) || seen_sigs.len() > 10 {
            continue;
        }
        let _ = std::fs::create_dir_all(&replay_dir);
        let h = hash_bytes(format!("{}{}{}", sig, f["rendered"], f["tape"]).as_bytes());
        let path = format!("{replay_dir}/{h:016x}.json");
        let mut rf = f.clone();
        rf["property"] = json!(id);
        rf["seed"] = json!(seed);
        rf["tier"] = json!(tier.name());
        let _ = std::fs::write(&path, serde_json::to_string_pretty(&rf).unwrap_or_default());
        out_lines.push(format!("VIOLATION property={id} replay={path}"));
        eprintln!("--- violation {sig}\n{}\n{}", f["detail"].as_str().unwrap_or(""), f["rendered"].as_str().unwrap_or("").chars().take(2000).collect::<String>());
    }

    // 4. evidence
    let total_skips: u64 = agg.skips.values().sum();
    let inconclusive = agg.timeouts;
    let wall = t0.elapsed().as_secs_f64();
    let exhaustive = !streams.is_empty() && streams.iter().all(|s| s.exhaustive);
    let evidence = json!({
        "property_id": id,
        "tier": tier.name(),
        "seed": seed as i64,
        "level": "exploration",
        "coverage": {
            "evaluations": agg.evals,
            "distinct_nontrivial": agg.nontrivial.len(),
            "rule": prop.rule(),
            "samples": agg.samples,
            "exhaustive": exhaustive,
            "streams": streams.iter().map(|s| json!({"name": s.name, "cases": s.cases, "exhaustive": s.exhaustive, "evaluated": agg.per_stream.get(s.name).copied().unwrap_or(0)})).collect::<Vec<_>>(),
            "passed": agg.pass,
            "labels": agg.labels,
            "skipped": agg.skips,
            "skipped_total": total_skips,
            "excluded_by_known_finding": agg.known,
            "known_findings_reproduced": known_lines,
            "inconclusive_watchdog": inconclusive,
            "watchdog_cases": agg.timeout_cases,
            "worker_aborts": agg.aborts,
            "infra_errors": agg.infra_errors,
        },
        "assumptions": prop.assumptions(),
        "wall_s": wall,
        "violations": out_lines.len(),
    });
    let epath = format!("{}/evidence/{}.json", verif_root(), id);
    let _ = std::fs::create_dir_all(format!("{}/evidence", verif_root()));
    let _ = std::fs::write(&epath, serde_json::to_string_pretty(&evidence).unwrap_or_default());

    for l in &known_lines {
        println!("{l}");
    }
    for l in &out_lines {
        println!("{l}");
    }
    println!(
        "{id} {}: evaluations={} nontrivial={} pass={} skipped={} known-excluded={} violations={} timeouts={} wall={wall:.1}s",
        tier.name(), agg.evals, agg.nontrivial.len(), agg.pass, total_skips, agg.known.values().sum::<u64>(), out_lines.len(), agg.timeouts
    );
    if !out_lines.is_empty() {
        return 1;
    }
    if !agg.infra_errors.is_empty() {
        for e in &agg.infra_errors {
            eprintln!("infrastructure error: {e}");
        }
        return 2;
    }
    if agg.evals > 0 && inconclusive * 100 > agg.evals {
        eprintln!("more than 1% of the cases hit the watchdog: inconclusive");
        return 2;
    }
    if agg.nontrivial.len() < 2 {
        eprintln!("fewer than 2 non-trivial cases: the check is vacuous");
        return 2;
    }
    0
}

/// Replay a file written by `run_check`. Exit 1 iff it still fails.
pub fn replay(prop: &dyn Prop, file: &str) -> i32 {
    let Ok(text) = std::fs::read_to_string(file) else {
        eprintln!("cannot read {file}");
        return 2;
    };
    let Ok(v) = serde_json::from_str::<Value>(&text) else {
        eprintln!("cannot parse {file}");
        return 2;
    };
    let tier = if v["tier"].as_str() == Some("thorough") { Tier::Thorough } else { Tier::Quick };
    let mut env = Env::new(tier, v["seed"].as_u64().unwrap_or(1));
    env.replay = true;
    let stream = v["stream"].as_str().unwrap_or("");
    let rendered = v["rendered"].as_str().unwrap_or("");
    let out = if !rendered.is_empty() { prop.run_rendered(&mut env, stream, rendered) } else { None };
    let out = out.unwrap_or_else(|| {
        let tape = unhex(v["tape"].as_str().unwrap_or(""));
        prop.run_case(&mut env, stream, v["index"].as_u64().unwrap_or(0), &tape)
    });
    match out.verdict {
        Verdict::Fail { sig, detail } => {
            println!("VIOLATION property={} replay={file}", prop.id());
            eprintln!("{sig}\n{detail}\n{}", out.rendered);
            1
        }
        Verdict::Pass => {
            println!("replay passes");
            0
        }
        Verdict::Skip(w) => {
            println!("replay skipped: {w}");
            2
        }
    }
}

/// Line-shrink the rendered input of a replay file (manual triage helper); prints the result.
pub fn shrink_file(prop: &dyn Prop, file: &str) -> i32 {
    let Ok(text) = std::fs::read_to_string(file) else { return 2 };
    let Ok(mut v) = serde_json::from_str::<Value>(&text) else { return 2 };
    let mut env = Env::new(Tier::Quick, 1);
    env.replay = true;
    let stream = v["stream"].as_str().unwrap_or("").to_string();
    let rendered = v["rendered"].as_str().unwrap_or("").to_string();
    let Some(o) = prop.run_rendered(&mut env, &stream, &rendered) else { return 2 };
    let Verdict::Fail { sig: sig0, .. } = o.verdict else {
        println!("does not fail");
        return 0;
    };
    let prefix = prop.rendered_prefix_lines(&rendered);
    let mut pred = |t: &str| matches!(prop.run_rendered(&mut env, &stream, t).map(|o| o.verdict), Some(Verdict::Fail { sig, .. }) if sig == sig0);
    let reduced = crate::tape::shrink_lines(&rendered, prefix, 3000, &mut pred);
    println!("{}", reduced.lines().skip(prefix).collect::<Vec<_>>().join("\n"));
    v["rendered"] = json!(reduced);
    let _ = std::fs::write(file, serde_json::to_string_pretty(&v).unwrap_or_default());
    1
}

/// `bv known1 <PROP> <ID>`: run the reproducer of one known finding in this process (used for
/// reproducers that abort the process). Exit 1 if it fails, 0 if it passes.
pub fn known_one(prop: &dyn Prop, id: &str) -> i32 {
    let known = load_known();
    let Some(k) = known.iter().find(|k| k.id == id && k.property == prop.id()) else { return 2 };
    let mut env = Env::new(Tier::Quick, 1);
    env.replay = true;
    match prop.run_rendered(&mut env, &k.stream, &k.repro).map(|o| o.verdict) {
        Some(Verdict::Fail { .. }) => 1,
        Some(_) => 0,
        None => 2,
    }
}
