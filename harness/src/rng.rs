//! Deterministic counter-mode generator for tapes: every case's tape is a pure function of
//! (VERIF_SEED, property, stream, case index). SplitMix64 seeding + xoshiro256**.

#[derive(Clone)]
pub struct Rng {
    s: [u64; 4],
}

fn splitmix(x: &mut u64) -> u64 {
    *x = x.wrapping_add(0x9E37_79B9_7F4A_7C15);
    let mut z = *x;
    z = (z ^ (z >> 30)).wrapping_mul(0xBF58_476D_1CE4_E5B9);
    z = (z ^ (z >> 27)).wrapping_mul(0x94D0_49BB_1331_11EB);
    z ^ (z >> 31)
}

pub fn hash_str(s: &str) -> u64 {
    let mut h: u64 = 0xcbf2_9ce4_8422_2325;
    for b in s.bytes() {
        h ^= u64::from(b);
        h = h.wrapping_mul(0x0000_0100_0000_01B3);
    }
    h
}

pub fn hash_bytes(s: &[u8]) -> u64 {
    let mut h: u64 = 0xcbf2_9ce4_8422_2325;
    for b in s {
        h ^= u64::from(*b);
        h = h.wrapping_mul(0x0000_0100_0000_01B3);
    }
    let mut x = h;
    splitmix(&mut x)
}

impl Rng {
    pub fn new(seed: u64, stream: &str, index: u64) -> Self {
        let mut x = seed ^ hash_str(stream).rotate_left(17) ^ index.wrapping_mul(0xD6E8_FEB8_6659_FD93);
        let mut s = [0u64; 4];
        for v in &mut s {
            *v = splitmix(&mut x);
        }
        Self { s }
    }
    pub fn next_u64(&mut self) -> u64 {
        let result = self.s[1].wrapping_mul(5).rotate_left(7).wrapping_mul(9);
        let t = self.s[1] << 17;
        self.s[2] ^= self.s[0];
        self.s[3] ^= self.s[1];
        self.s[1] ^= self.s[2];
        self.s[0] ^= self.s[3];
        self.s[2] ^= t;
        self.s[3] = self.s[3].rotate_left(45);
        result
    }
    pub fn below(&mut self, n: u64) -> u64 {
        if n == 0 { 0 } else { self.next_u64() % n }
    }
    pub fn bytes(&mut self, n: usize) -> Vec<u8> {
        let mut v = Vec::with_capacity(n + 8);
        while v.len() < n {
            v.extend_from_slice(&self.next_u64().to_le_bytes());
        }
        v.truncate(n);
        v
    }
}
