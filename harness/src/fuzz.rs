//! Entry point for the libFuzzer target (/verif/fuzz): the fuzzer's bytes are the tape of one
//! case of the property/stream named by BV_FUZZ; the property's own oracle decides. A failure
//! that does not match an open known finding aborts the process (libFuzzer saves the input).

use crate::driver::{Env, Known, Tier, Verdict, load_known, match_known};
use std::cell::RefCell;

thread_local! {
    static ENV: RefCell<Option<Env>> = const { RefCell::new(None) };
    static KNOWN: Vec<Known> = load_known();
    static SEL: (String, String) = {
        let v = std::env::var("BV_FUZZ").unwrap_or_else(|_| "C05/lit".to_string());
        let (p, s) = v.split_once('/').unwrap_or((&v, ""));
        (p.to_string(), s.to_string())
    };
}

pub fn entry(data: &[u8]) {
    let (pid, stream) = SEL.with(Clone::clone);
    let Some(prop) = crate::props::find(&pid) else {
        eprintln!("BV_FUZZ: unknown property {pid}");
        std::process::exit(2);
    };
    ENV.with(|e| {
        let mut e = e.borrow_mut();
        let env = e.get_or_insert_with(|| Env::new(Tier::Thorough, 1));
        let out = prop.run_case(env, &stream, 0, data);
        if let Verdict::Fail { sig, detail } = &out.verdict {
            let known = KNOWN.with(|k| match_known(k, &pid, sig).is_some());
            if !known {
                eprintln!("FUZZ-VIOLATION {pid}/{stream}: {sig}\n{detail}\n{}", out.rendered.chars().take(3000).collect::<String>());
                std::process::abort();
            }
        }
    });
}
