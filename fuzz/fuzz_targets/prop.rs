//! Coverage-guided driver for any in-process property check: the fuzzer's bytes are the tape.
//! Select the property and stream with BV_FUZZ=<PROP>/<stream> (e.g. C05/lit).
#![no_main]
use libfuzzer_sys::fuzz_target;

fuzz_target!(|data: &[u8]| {
    bv::fuzz::entry(data);
});
