#!/bin/bash
# fuzz/run.sh <PROP> <stream> <seconds>  — coverage-guided campaign with the property's oracle inside the target.
# exit 0: no unlisted violation; exit 1: VIOLATION line(s) printed; exit 2: could not run.
set -u
cd "$(dirname "$0")"
prop="$1"; stream="$2"; secs="${3:-60}"
export CARGO_NET_OFFLINE=true BV_ROOT="$(cd .. && pwd)" BV_FUZZ="$prop/$stream"
export RUSTFLAGS="--cfg boa_verif ${RUSTFLAGS:-}"
out="$BV_ROOT/fuzz/corpus-run/$prop-$stream"; rm -rf "$out"; mkdir -p "$out/corpus" "$out/artifacts"
cargo +nightly fuzz build -s none --fuzz-dir . prop > "$out/build.log" 2>&1 || { echo "fuzz build failed (see $out/build.log)"; tail -5 "$out/build.log"; exit 2; }
# seed corpus: a few tapes of the seeded generator (valid small inputs) next to the empty corpus
"$BV_ROOT/harness/target/debug/bv" tapes "$prop" "$stream" 32 "$out/corpus" "${VERIF_SEED:-1}" > /dev/null 2>&1
BV_FUZZ_STATS="$out/stats.json" cargo +nightly fuzz run -s none --fuzz-dir . prop "$out/corpus" -- -max_total_time="$secs" -seed="${VERIF_SEED:-1}" -len_control=0 -max_len=900 -timeout=30 -rss_limit_mb=4096 -artifact_prefix="$out/artifacts/" -print_final_stats=1 > "$out/run.log" 2>&1
rc=0
grep -a "stat::number_of_executed_units\|cov:" "$out/run.log" | tail -2
for f in "$out"/artifacts/crash-* "$out"/artifacts/timeout-*; do
  [ -e "$f" ] || continue
  case "$f" in *timeout-*) echo "fuzz: timeout artifact $f (inconclusive)"; continue;; esac
  "$BV_ROOT/harness/target/debug/bv" replay-tape "$prop" "$stream" "$f"; r=$?
  if [ $r -eq 1 ]; then rc=1
  elif [ $r -ge 128 ]; then
    mkdir -p "$BV_ROOT/replays/$prop"; t="$BV_ROOT/replays/$prop/fuzz-abort-$stream-$(basename "$f").tape"; cp "$f" "$t"
    echo "VIOLATION property=$prop replay=$t"; rc=1
  fi
done
exit $rc
